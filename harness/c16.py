"""C16 -- asynchronous (Twisted) client matches pipelined replies by transaction id.

pipe.tcp.perm<k>: ModbusClientProtocol (socket framer, dictionary-keyed transactions) with a SYMBOLIC starting
transaction-id counter (0..65535, so the wrap at 0xFFFF is inside the domain) issues three requests; their replies
(symbolic distinct values) arrive in permutation k, with an unsolicited reply (symbolic foreign transaction id) and a
duplicate of an already-answered reply injected. Asserted: the three transaction ids on the wire are distinct; each
deferred fires exactly once, with the reply carrying its own id; the unsolicited and the duplicate reply change nothing.
pipe.tcp.onechunk.perm<k>: the same five frames delivered in ONE dataReceived call.
lost.tcp.at<j>: connection lost after j replies: every still-pending deferred fails with ConnectionException, fired
ones are not touched again, a request issued afterwards fails likewise.
step.tcp: one inductive step from an ARBITRARY pending set (two pending deferreds with symbolic ids, symbolic
counter): a new request, then connection loss -- every deferred (old and new) fires exactly once.
fifo.rtu: the serial (FIFO) variant: replies are matched to requests in order.
"""
from engine.hlib import assume, same, explain, known, eqdict
from engine.obl import Obl
from spec import adu
import itertools

LEVEL = "model_checking"
EXPLANATION = ("Bounded symbolic model checking of the Twisted ModbusClientProtocol (execute, _buildResponse, dataReceived, "
               "_handleResponse, connectionLost) with DictTransactionManager / FifoTransactionManager, from symbolic transaction-id "
               "counters and symbolic pending sets, for every arrival order of up to three replies.")
ASSUMPTIONS = ["three outstanding requests (all 6 arrival orders); pending maps are hash-free mappings under the solver so that ids stay symbolic",
               "the Twisted transport is a recording fake; each reply arrives as one dataReceived call, or (pipe.tcp.onechunk.*) all five frames in one call; cuts inside a frame are C06's subject",
               "step.tcp: the pre-state (a pending id equal to counter+1) is reachable after 65535 further requests while one stays unanswered - there is no timeout in this client"]


class Rec(object):
    def __init__(self):
        self.ok = []
        self.err = []


def _watch(d):
    r = Rec()
    d.addCallbacks(lambda x: (r.ok.append(x), None)[1], lambda f: (r.err.append(f), None)[1])
    return r


def _proto(framing="tcp"):
    from pymodbus.client.asynchronous.twisted import ModbusClientProtocol
    from pymodbus.factory import ClientDecoder
    from spec.adu import framer_class
    from harness.serverlib import FakeTransport, Result
    p = ModbusClientProtocol(framer=framer_class(framing)(ClientDecoder()))
    res = Result()
    p.transport = FakeTransport(res)
    if framing == "tcp":
        p.transaction.transactions = eqdict()
    p.connectionMade()
    return p, res


def _reply(tid, unit, v):
    return adu.ref_adu("tcp", bytes([3, 2, v[0], v[1]]), unit, bytes([tid // 256, tid % 256]))


def make_pipe(perm, onechunk=False):
    def pipe(t0: bytes, x: bytes, v: bytes) -> bool:
        import pymodbus.factory as F
        assume(len(t0) == 2 and len(x) == 2 and len(v) == 8)
        p, res = _proto()
        p.transaction.tid = t0[0] * 256 + t0[1]
        recs, tids = [], []
        for i in range(3):
            req = F.ReadHoldingRegistersRequest(i, 1)
            req.unit_id = 1
            recs.append(_watch(p.execute(req)))
            tids.append(req.transaction_id)
        if len(res.written) != 3:
            return False
        # ids on the wire are the ones assigned, 16-bit and pairwise distinct
        for i in range(3):
            if res.written[i][0] * 256 + res.written[i][1] != tids[i] or not (0 <= tids[i] <= 65535):
                explain("request %d carries transaction id bytes %r, assigned %r", i, res.written[i][0:2], tids[i])
                return False
        if tids[0] == tids[1] or tids[1] == tids[2] or tids[0] == tids[2]:
            explain("outstanding requests share a transaction id: %r", tids)
            return False
        foreign = x[0] * 256 + x[1]
        assume(foreign != tids[0])
        assume(foreign != tids[1])
        assume(foreign != tids[2])
        if onechunk:
            # everything in ONE dataReceived call: unsolicited reply, first reply, its duplicate, the other two replies
            chunk = _reply(foreign, 1, v[6:8])
            for n, i in enumerate(perm):
                chunk = chunk + _reply(tids[i], 1, v[2 * i:2 * i + 2])
                if n == 0:
                    chunk = chunk + _reply(tids[i], 1, v[6:8])
            p.dataReceived(chunk)
            perm_rest = ()
        else:
            perm_rest = perm
            # unsolicited reply first
            p.dataReceived(_reply(foreign, 1, v[6:8]))
        for r in recs:
            if (r.ok or r.err) and not onechunk:
                explain("an unsolicited reply fired a deferred")
                return False
        for n, i in enumerate(perm_rest):
            p.dataReceived(_reply(tids[i], 1, v[2 * i:2 * i + 2]))
            if n == 0:
                # duplicate of the reply just delivered
                p.dataReceived(_reply(tids[i], 1, v[6:8]))
        for i in range(3):
            r = recs[i]
            if len(r.ok) != 1 or r.err:
                explain("deferred %d fired %d times (errors: %d)", i, len(r.ok), len(r.err))
                return False
            if r.ok[0].transaction_id != tids[i] or list(r.ok[0].registers) != [v[2 * i] * 256 + v[2 * i + 1]]:
                explain("deferred %d got the reply of another request", i)
                return False
        return len(list(p.transaction)) == 0
    return pipe


def make_lost(j, close_first=False):
    def lost(t0: bytes, v: bytes) -> bool:
        import pymodbus.factory as F
        from pymodbus.exceptions import ConnectionException
        assume(len(t0) == 2 and len(v) == 6)
        p, res = _proto()
        p.transaction.tid = t0[0] * 256 + t0[1]
        recs, tids = [], []
        for i in range(3):
            req = F.ReadHoldingRegistersRequest(i, 1)
            req.unit_id = 1
            recs.append(_watch(p.execute(req)))
            tids.append(req.transaction_id)
        order = [2, 0, 1]
        for i in order[:j]:
            p.dataReceived(_reply(tids[i], 1, v[2 * i:2 * i + 2]))
        if close_first:
            p.close()           # the application closes the client itself; Twisted then reports the loss
        p.connectionLost("test")
        for n, i in enumerate(order):
            r = recs[i]
            if n < j:
                if len(r.ok) != 1 or r.err:
                    explain("answered deferred %d disturbed by the connection loss", i)
                    return False
            else:
                if r.ok or len(r.err) != 1 or not isinstance(r.err[0].value, ConnectionException):
                    explain("pending deferred %d: ok=%d err=%d after connection loss", i, len(r.ok), len(r.err))
                    return False
        late = _watch(p.execute(F.ReadHoldingRegistersRequest(9, 1)))
        if late.ok or len(late.err) != 1 or not isinstance(late.err[0].value, ConnectionException):
            explain("a request issued after the loss did not fail with ConnectionException")
            return False
        return True
    return lost


def step_tcp(t0: bytes, pa: bytes, pb: bytes) -> bool:
    """inductive step from an arbitrary pending set"""
    import pymodbus.factory as F
    from twisted.internet import defer
    assume(len(t0) == 2 and len(pa) == 2 and len(pb) == 2)
    p, res = _proto()
    t = t0[0] * 256 + t0[1]
    a, b = pa[0] * 256 + pa[1], pb[0] * 256 + pb[1]
    assume(a != b)
    p.transaction.tid = t
    da, db = defer.Deferred(), defer.Deferred()
    ra, rb = _watch(da), _watch(db)
    p.transaction.addTransaction(da, a)
    p.transaction.addTransaction(db, b)
    nxt = (t + 1) % 65536
    known("KF-async-tid-wrap-overwrites-pending", (a == nxt) | (b == nxt))
    req = F.ReadHoldingRegistersRequest(0, 1)
    req.unit_id = 1
    rn = _watch(p.execute(req))
    if req.transaction_id == a or req.transaction_id == b:
        explain("new request reuses the transaction id %r of a pending request", req.transaction_id)
        return False
    p.connectionLost("test")
    for name, r in (("a", ra), ("b", rb), ("new", rn)):
        if r.ok or len(r.err) != 1:
            explain("deferred %s fired ok=%d err=%d", name, len(r.ok), len(r.err))
            return False
    return True


def fifo_rtu(u: int, v: bytes) -> bool:
    import pymodbus.factory as F
    assume(len(v) == 4)
    assume(1 <= u <= 247)
    p, res = _proto("rtu")
    recs = []
    for i in range(2):
        req = F.ReadHoldingRegistersRequest(i, 1)
        req.unit_id = u
        recs.append(_watch(p.execute(req)))
    for i in range(2):
        p.dataReceived(adu.ref_adu("rtu", bytes([3, 2, v[2 * i], v[2 * i + 1]]), u))
    for i in range(2):
        r = recs[i]
        if len(r.ok) != 1 or r.err or list(r.ok[0].registers) != [v[2 * i] * 256 + v[2 * i + 1]]:
            explain("serial request %d did not get its reply", i)
            return False
    return True


def make_lost_rtu(j):
    """serial (FIFO) variant: j replies delivered, then the connection is lost: every still-pending deferred fails with
    ConnectionException, answered ones are not touched, a request issued afterwards fails likewise"""
    def lost_rtu(u: int, v: bytes) -> bool:
        import pymodbus.factory as F
        from pymodbus.exceptions import ConnectionException
        assume(len(v) == 4)
        assume(1 <= u <= 247)
        p, res = _proto("rtu")
        recs = []
        for i in range(2):
            req = F.ReadHoldingRegistersRequest(i, 1)
            req.unit_id = u
            recs.append(_watch(p.execute(req)))
        for i in range(j):
            p.dataReceived(adu.ref_adu("rtu", bytes([3, 2, v[2 * i], v[2 * i + 1]]), u))
        try:
            p.connectionLost("test")
        except Exception as e:
            explain("connectionLost raised %s", type(e).__name__)
            return False
        for i, r in enumerate(recs):
            if i < j:
                if len(r.ok) != 1 or r.err:
                    return False
            elif r.ok or len(r.err) != 1 or not isinstance(r.err[0].value, ConnectionException):
                explain("pending serial request %d: ok=%d err=%d after connection loss", i, len(r.ok), len(r.err))
                return False
        late = _watch(p.execute(F.ReadHoldingRegistersRequest(9, 1)))
        return not late.ok and len(late.err) == 1 and isinstance(late.err[0].value, ConnectionException)
    return lost_rtu


def fresh_protocol_rtu(u: int, v: bytes) -> bool:
    """serial variant, default construction: a protocol object whose connection dropped in the middle of a reply must
    not affect the NEXT protocol object (re-opened port): its request is answered by its own complete reply"""
    import pymodbus.factory as F
    from pymodbus.client.asynchronous.twisted import ModbusSerClientProtocol
    from harness.serverlib import FakeTransport, Result
    assume(len(v) == 6)
    assume(1 <= u <= 247)

    def proto():
        p = ModbusSerClientProtocol()
        p.transport = FakeTransport(Result())
        p.connectionMade()
        return p
    a = proto()
    r0 = F.ReadHoldingRegistersRequest(0, 1)
    r0.unit_id = u
    w0 = _watch(a.execute(r0))
    a.dataReceived(adu.ref_adu("rtu", bytes([3, 2, v[0], v[1]]), u))
    if len(w0.ok) != 1:
        return False
    r1 = F.ReadHoldingRegistersRequest(1, 1)
    r1.unit_id = u
    _watch(a.execute(r1))
    a.dataReceived(adu.ref_adu("rtu", bytes([3, 2, v[2], v[3]]), u)[:4])      # the line drops in the middle of this reply
    a.connectionLost("test")
    b = proto()
    r2 = F.ReadHoldingRegistersRequest(2, 1)
    r2.unit_id = u
    w2 = _watch(b.execute(r2))
    b.dataReceived(adu.ref_adu("rtu", bytes([3, 2, v[4], v[5]]), u))
    if len(w2.ok) != 1 or w2.err:
        explain("request on the re-opened port: ok=%d err=%d", len(w2.ok), len(w2.err))
        return False
    return same(list(w2.ok[0].registers), [v[4] * 256 + v[5]], "reply on the re-opened port")


def obligations(tier):
    from harness import kernels
    T = 300 if tier == "quick" else 1200
    out = [kernels.K1(tier)]
    perms = list(itertools.permutations(range(3)))
    for k, perm in enumerate(perms):
        if tier == "quick" and k not in (0, 3, 5):
            continue
        out.append(Obl("pipe.tcp.perm%s" % "".join(map(str, perm)), make_pipe(perm), timeout=T,
                       bounds="tid counter 0..65535 symbolic, three requests, replies in order %s with symbolic values; unsolicited reply with symbolic foreign tid; duplicate reply" % (perm,)))
    for perm in ((2, 0, 1),) if tier == "quick" else perms:
        out.append(Obl("pipe.tcp.onechunk.perm%s" % "".join(map(str, perm)), make_pipe(perm, onechunk=True), timeout=T,
                       bounds="as pipe.tcp.perm*, but the unsolicited reply, the first reply, its duplicate and the other two replies (order %s) arrive in ONE dataReceived call" % (perm,)))
    for j in (0, 1, 2, 3):
        if tier == "quick" and j in (2,):
            continue
        out.append(Obl("lost.tcp.at%d" % j, make_lost(j), timeout=T,
                       bounds="three requests from a symbolic tid counter, %d replies delivered, then connection lost, then one more request" % j))
    for j in (1,) if tier == "quick" else (0, 1, 2):
        out.append(Obl("lost.tcp.closed.at%d" % j, make_lost(j, close_first=True), timeout=T,
                       bounds="as lost.tcp.at%d, but the application calls protocol.close() before the connection loss is reported" % j))
    out.append(Obl("step.tcp", step_tcp, timeout=T, findings=("KF-async-tid-wrap-overwrites-pending",),
                   bounds="arbitrary pre-state: two pending deferreds with symbolic distinct ids, symbolic counter; one new request, then connection loss"))
    for j in (0, 1, 2):
        out.append(Obl("lost.rtu.at%d" % j, make_lost_rtu(j), timeout=T, contracts=("crc",), lemmas=("K1",),
                       bounds="serial (FIFO) protocol: two requests, %d replies delivered, then connection lost, then one more request; unit and values symbolic" % j))
    out.append(Obl("fresh-protocol.rtu", fresh_protocol_rtu, timeout=T, contracts=("crc",), lemmas=("K1",),
                   bounds="two ModbusSerClientProtocol objects built with their defaults, one after the other: the first loses its connection after 4 bytes of a reply; the second's request is answered by its own reply; unit and values symbolic"))
    out.append(Obl("fifo.rtu", fifo_rtu, timeout=T, contracts=("crc",), lemmas=("K1",),
                   bounds="serial (FIFO) protocol: two requests, two replies in order; unit and values symbolic"))
    return out
