"""C04 -- server executes data-access requests as a Modbus register file (valid requests).
C05 shares the step harness (see harness/c05.py): one inductive step from an arbitrary table state.

step.fc<N>[shape].zm=<bool>[.shared]:
  pre-state: the table the function code addresses is a sequential block with symbolic start, symbolic
  length 1..N and symbolic contents; the other three tables are fixed decoys (must stay untouched);
  request = symbolic body bytes decoded by the real ServerDecoder, executed by the real execute();
  asserted: response PDU == reference model's PDU, and all four tables == model's post-state.
"""
from typing import List

from engine.hlib import assume, same, explain, known
from engine.obl import Obl
from spec import regfile

LEVEL = "model_checking"
EXPLANATION = ("One symbolic step of the request -> decode -> execute -> datastore path from an arbitrary table state, "
               "compared with a reference register-file model written from the spec; arbitrary request histories follow by "
               "induction over states of this shape (argument on paper).")
ASSUMPTIONS = ["tables are ModbusSequentialDataBlock with 1..N cells (N=4 quick, 6 thorough) at any start address; registers hold 0..65535, bit tables hold bools",
               "remote/SQL/redis datastores are outside the claim",
               "that every front-end and framer hands the decoded request to execute() unchanged is C09/C17's subject"]

BODYLEN = {1: 4, 2: 4, 3: 4, 4: 4, 5: 4, 6: 4, 22: 6}


def body_len(fc, shape):
    if fc == 15:
        return 5 + shape
    if fc == 16:
        return 5 + 2 * shape
    if fc == 23:
        return 9 + 2 * shape
    return BODYLEN[fc]


def _block(start, vals):
    from pymodbus.datastore.store import ModbusSequentialDataBlock
    blk = ModbusSequentialDataBlock(start, [0])
    blk.values = vals
    return blk


def make_step(fc, shape, zero_mode, N, want_exception, shared=False):
    L = body_len(fc, shape)
    if fc == 15 and shape and shape > 1:
        N = max(N, 8 * (shape - 1) + 2)      # a valid request with `shape` data bytes needs that many coils
    t = regfile.TABLE[fc]
    isbits = t in "cd"

    def run(start, vals, b):
        from pymodbus.factory import ServerDecoder
        from pymodbus.datastore import ModbusSlaveContext
        assume(0 <= start <= 65600)
        assume(1 <= len(vals) <= N)
        assume(len(b) == L)
        if not isbits:
            for v in vals:
                assume(0 <= v <= 65535)
        code = regfile.verdict(fc, b, (start, vals), zero_mode)
        assume((code != 0) == want_exception)
        exp_pdu, exp_vals = regfile.model(fc, b, (start, list(vals)), zero_mode)
        # listed known findings (regions are stated on the request bytes)
        if fc == 5:
            w = regfile.u16(b, 2)
            known("KF-coil-value-unchecked", not ((w == 0) or (w == 0xFF00)))
        if fc == 15:
            known("KF-coils-quantity-vs-data", _coils_short(b))
        if fc in (16, 23):
            known("KF-write-registers-short-data", _regs_short(fc, b))
        blocks, snap = {}, {}
        for k in "dcih":
            if k == t:
                blocks[k] = _block(start, list(vals))
            elif shared and (k in "hi") and (t in "hi"):
                blocks[k] = blocks[t] if t in blocks else None
            else:
                blocks[k] = _block(0, [7, 7, 7])
        if shared:
            other = "i" if t == "h" else "h"
            blocks[other] = blocks[t]
        for k in "dcih":
            snap[k] = list(blocks[k].values)
        ctx = ModbusSlaveContext(di=blocks["d"], co=blocks["c"], ir=blocks["i"], hr=blocks["h"], zero_mode=zero_mode)
        req = ServerDecoder().decode(bytes([fc]) + b)
        if req is None:
            explain("decoder rejected the request")
            return False
        resp = req.execute(ctx)
        got_pdu = bytes([resp.function_code]) + resp.encode()
        if not same(got_pdu, exp_pdu, "response PDU"):
            return False
        for k in "dcih":
            after = list(blocks[k].values)
            want = exp_vals if blocks[k] is blocks[t] else snap[k]
            if len(after) != len(want):
                explain("table %s changed size", k)
                return False
            for i in range(len(want)):
                if after[i] != want[i]:
                    explain("table %s cell %d: got %r expected %r", k, i, after[i], want[i])
                    return False
            if blocks[k].address != (start if blocks[k] is blocks[t] else 0):
                return False
        return True

    if isbits:
        def step(start: int, vals: List[bool], b: bytes) -> bool:
            return run(start, vals, b)
    else:
        def step(start: int, vals: List[int], b: bytes) -> bool:
            return run(start, vals, b)
    return step


def _maskwrite_differs(vals, start, b, zero_mode):
    """region of KF-maskwrite-formula: (or_mask AND and_mask) != 0 -- exactly where (cur&and)|or differs
    from (cur&and)|(or&~and) for some current value"""
    from engine.hlib import bitand16
    return bitand16(regfile.u16(b, 2), regfile.u16(b, 4)) != 0


def _coils_short(b):
    """region of KF-coils-quantity-vs-data: quantity field larger than the bits actually carried"""
    return regfile.u16(b, 2) > 8 * (len(b) - 5)


def _regs_short(fc, b):
    """region of KF-write-registers-short-data: more register data promised than carried"""
    if fc == 16:
        return 2 * regfile.u16(b, 2) > len(b) - 5
    return b[8] > len(b) - 9


SHAPES = {15: [1, 2], 16: [1, 2], 23: [1, 2]}
FINDINGS = {16: ("KF-write-registers-short-data",), 23: ("KF-write-registers-short-data",), 5: ("KF-coil-value-unchecked",), 15: ("KF-coils-quantity-vs-data",)}


def step_obligations(tier, want_exception, prefix):
    N = 4 if tier == "quick" else 6
    T = 120 if tier == "quick" else 900
    out = []
    for fc in (1, 2, 3, 4, 5, 6, 15, 16, 22, 23):
        shapes = SHAPES.get(fc, [None])
        if tier != "quick" and fc in SHAPES:
            shapes = shapes + [3]
        for shape in shapes:
            for zm in (False, True):
                if tier == "quick" and zm and fc not in (1, 6, 16, 23):
                    continue
                contracts = ("bits",) if fc in (1, 2, 15) else ()
                name = "%s.fc%d%s.zm=%s" % (prefix, fc, "" if shape is None else "[%d]" % shape, zm)
                bounds = ("fc %d%s, zero_mode=%s: addressed table start 0..65600, 1..%d cells, contents symbolic; "
                          "all %d request body bytes symbolic; %s requests only") % (
                    fc, "" if shape is None else " with %d data byte(s)/register(s)" % shape, zm, N, body_len(fc, shape),
                    "invalid (model answers an exception)" if want_exception else "valid (model answers normally)")
                out.append(Obl(name, make_step(fc, shape, zm, N, want_exception), bounds=bounds, timeout=T,
                               contracts=contracts, lemmas=("K3",) if contracts else (), findings=FINDINGS.get(fc, ())))
    if not want_exception:
        for fc in (4, 6, 16, 22, 23):
            shape = SHAPES.get(fc, [None])[0]
            name = "%s.fc%d%s.shared_hr_ir" % (prefix, fc, "" if shape is None else "[%d]" % shape)
            out.append(Obl(name, make_step(fc, shape, False, N, want_exception, shared=True), timeout=T,
                           bounds="holding and input registers are one shared block; otherwise as the step obligations",
                           findings=FINDINGS.get(fc, ())))
    return out


def obligations(tier):
    from harness import kernels
    return [kernels.K3(tier)] + step_obligations(tier, False, "step")
