#!/bin/bash
# run every registered quick (or $1=thorough) check sequentially, print one summary line each and a final verdict
cd "$(dirname "$0")/.."
TIER=${1:-quick}
python3 tools/lint.py harness/*.py engine/*.py spec/*.py || { echo "RED: lint"; exit 1; }
red=""
for id in $(python3 -c "import json; print(' '.join(c['property_id'] for c in json.load(open('MANIFEST.json'))['checks']))"); do
  out=$(./check $id $TIER 2>/dev/null); rc=$?
  echo "rc=$rc $(echo "$out" | tail -1)"
  echo "$out" | grep -E "^(VIOLATION|HARNESS-ERROR)" | head -5
  [ $rc -ne 0 ] && red="$red $id"
  echo "$out" | tail -1 | grep -qE " 0 inconclusive" || red="$red $id(inconclusive)"
done
if [ -z "$red" ]; then echo "ALL GREEN"; else echo "RED:$red"; fi
