"""C19 -- payload builder and decoder agree for every byte and word order.

seq.<types>.<byteorder><wordorder>: a sequence of typed values, each given by its network-order bytes
(all bit patterns symbolic), is added to a BinaryPayloadBuilder; asserted:
  * to_string() == the conventional register image (reference word/byte shuffle below),
  * BinaryPayloadDecoder over the raw bytes returns every value, in order,
  * the same through build()/to_registers() -> fromRegisters().
Floats: the IEEE conversion (struct 'e'/'f'/'d') is CPython's; the harness carries a float as its bit pattern
through the two struct calls that touch it and asserts the pattern comes back unchanged -- for every bit pattern
(a superset of all floats incl. subnormals, infinities, NaN payloads).
"""
from engine.hlib import assume, same, explain, bit_of, be_int, STATE
from engine.obl import Obl

LEVEL = "model_checking"
EXPLANATION = ("Bounded symbolic model checking of BinaryPayloadBuilder/BinaryPayloadDecoder (_pack_words, _unpack_words, add_*, "
               "decode_*, build, to_registers, fromRegisters) over all bit patterns of each value for all four byte/word-order combinations.")
ASSUMPTIONS = ["IEEE-754 conversion is CPython's struct (trusted): float values are carried as bit patterns through pack('!f')/unpack('!f')",
               "sequences of 1..3 values with the type combinations enumerated per obligation; strings of 3 bytes; bit groups of 8 bits"]

# name -> (width in bytes, kind)
TYPES = {"u8": (1, "u"), "i8": (1, "i"), "u16": (2, "u"), "i16": (2, "i"), "u32": (4, "u"), "i32": (4, "i"),
         "u64": (8, "u"), "i64": (8, "i"), "f16": (2, "f"), "f32": (4, "f"), "f64": (8, "f"), "bits": (1, "b"), "str3": (3, "s")}
ADD = {"u8": "add_8bit_uint", "i8": "add_8bit_int", "u16": "add_16bit_uint", "i16": "add_16bit_int",
       "u32": "add_32bit_uint", "i32": "add_32bit_int", "u64": "add_64bit_uint", "i64": "add_64bit_int",
       "f16": "add_16bit_float", "f32": "add_32bit_float", "f64": "add_64bit_float", "bits": "add_bits", "str3": "add_string"}
DEC = {k: v.replace("add_", "decode_") for k, v in ADD.items()}


class FloatBits(object):
    """a float standing for its IEEE bit pattern (network order bytes).

    Code that only moves the value around never notices. Code that inspects the numeric value (compares it,
    takes abs(), ...) cannot be followed with a bit pattern: that path is abandoned (the obligation then reports
    VACUOUS/inconclusive) and the numeric behaviour is left to the extremes.* obligations, which use real floats."""
    def __init__(self, raw):
        self.raw = raw

    def _numeric(self, *a):
        assume(False)
    __abs__ = __neg__ = __float__ = __lt__ = __le__ = __gt__ = __ge__ = __add__ = __sub__ = __mul__ = __truediv__ = _numeric
    __radd__ = __rsub__ = __rmul__ = __round__ = __int__ = __bool__ = _numeric


def _install_float_passthrough():
    """pymodbus.payload's two struct calls that touch a float value: pack('!f', v) and unpack('!f', h)."""
    import struct
    import pymodbus.payload as P
    if getattr(P, "_verif_float_passthrough", False):
        return
    def pack(fmt, *vals):
        if len(vals) == 1 and isinstance(vals[0], FloatBits):
            assert fmt in ("!e", "!f", "!d"), fmt
            return vals[0].raw
        return struct.pack(fmt, *vals)
    def unpack(fmt, data):
        if fmt in ("!e", "!f", "!d"):
            return (FloatBits(data),)
        return struct.unpack(fmt, data)
    P.pack, P.unpack = pack, unpack
    P._verif_float_passthrough = True


def value_of(t, raw):
    """python value for type t from its network-order bytes"""
    w, kind = TYPES[t]
    if kind in "ui":
        return be_int(raw, signed=(kind == "i"))
    if kind == "f":
        return FloatBits(raw)
    if kind == "b":
        return [bit_of(raw[0], k) for k in range(8)]
    return raw


def image_of(t, raw, byteorder, wordorder):
    """conventional register image: network order; little word order reverses the 16-bit words of a
    multi-register value; little byte order swaps the two bytes inside each word"""
    w, kind = TYPES[t]
    if kind in "bs" or w == 1:
        return raw
    words = [raw[i:i + 2] for i in range(0, w, 2)]
    if w > 2 and wordorder == "<":
        words = words[::-1]
    out = b""
    for wd in words:
        out = out + (wd if byteorder == ">" else wd[1:2] + wd[0:1])
    return out


def equal_values(t, got, exp):
    if TYPES[t][1] == "f":
        return isinstance(got, FloatBits) and same(got.raw, exp.raw, "float bit pattern")
    return same(got, exp, t)


def make_seq(types, byteorder, wordorder):
    widths = [TYPES[t][0] for t in types]
    total = sum(widths)

    def seq(data: bytes) -> bool:
        from pymodbus.payload import BinaryPayloadBuilder, BinaryPayloadDecoder
        _install_float_passthrough()
        assume(len(data) == total)
        raws, o = [], 0
        for w in widths:
            raws.append(data[o:o + w])
            o += w
        vals = [value_of(t, r) for t, r in zip(types, raws)]
        b = BinaryPayloadBuilder(byteorder=byteorder, wordorder=wordorder)
        for t, v in zip(types, vals):
            getattr(b, ADD[t])(v)
        exp = b""
        for t, r in zip(types, raws):
            exp = exp + image_of(t, r, byteorder, wordorder)
        img = b.to_string()
        if not same(img, exp, "register image"):
            return False
        # raw transport
        d = BinaryPayloadDecoder(img, byteorder=byteorder, wordorder=wordorder)
        for t, v in zip(types, vals):
            got = d.decode_string(3) if t == "str3" else getattr(d, DEC[t])()
            if not equal_values(t, got, v):
                explain("raw transport, value of type %s", t)
                return False
        # register transport
        regs = b.to_registers()
        if len(regs) != (total + 1) // 2:
            explain("to_registers returned %d registers for %d bytes", len(regs), total)
            return False
        d2 = BinaryPayloadDecoder.fromRegisters(regs, byteorder=byteorder, wordorder=wordorder)
        for t, v in zip(types, vals):
            got = d2.decode_string(3) if t == "str3" else getattr(d2, DEC[t])()
            if not equal_values(t, got, v):
                explain("register transport, value of type %s", t)
                return False
        built = b.build()
        return same(b"".join(built)[:total], exp, "build()")
    return seq


def _special_floats(width):
    import struct
    fmt = {2: "!e", 4: "!f", 8: "!d"}[width]
    top = {2: 0x7BFF, 4: 0x7F7FFFFF, 8: 0x7FEFFFFFFFFFFFFF}[width]          # largest finite
    inf = {2: 0x7C00, 4: 0x7F800000, 8: 0x7FF0000000000000}[width]
    sign = 1 << (8 * width - 1)
    pats = [0, sign, 1, sign | 1, top, sign | top, top - 1, inf, sign | inf, inf - 1, (inf >> 1) + 1,
            {2: 0x3C00, 4: 0x3F800000, 8: 0x3FF0000000000000}[width],       # 1.0
            {2: 0x0400, 4: 0x00800000, 8: 0x0010000000000000}[width],       # smallest normal
            {2: 0x03FF, 4: 0x007FFFFF, 8: 0x000FFFFFFFFFFFFF}[width],       # largest subnormal
            {2: 0x3555, 4: 0x3EAAAAAB, 8: 0x3FD5555555555555}[width]]       # ~1/3
    return [(p.to_bytes(width, "big"), struct.unpack(fmt, p.to_bytes(width, "big"))[0]) for p in pats]


def make_extremes(t, byteorder, wordorder):
    """real float values (no bit-pattern pass-through): the table of special values below, selected by a symbolic index"""
    width = TYPES[t][0]
    table = _special_floats(width)

    def extremes(i: int) -> bool:
        from pymodbus.payload import BinaryPayloadBuilder, BinaryPayloadDecoder
        import struct
        assume(0 <= i < len(table))
        raw, val = table[i]
        b = BinaryPayloadBuilder(byteorder=byteorder, wordorder=wordorder)
        getattr(b, ADD[t])(val)
        img = b.to_string()
        if not same(img, image_of(t, raw, byteorder, wordorder), "register image of %r" % (val,)):
            return False
        for d in (BinaryPayloadDecoder(img, byteorder=byteorder, wordorder=wordorder),
                  BinaryPayloadDecoder.fromRegisters(b.to_registers(), byteorder=byteorder, wordorder=wordorder)):
            got = getattr(d, DEC[t])()
            if isinstance(got, FloatBits):
                got = struct.unpack({2: "!e", 4: "!f", 8: "!d"}[width], bytes(got.raw))[0]
            if struct.pack({2: "!e", 4: "!f", 8: "!d"}[width], got) != raw:
                explain("value %r came back as %r", val, got)
                return False
        return True
    return extremes


def make_text(byteorder, wordorder):
    """add_string called with TEXT (str, any code points, not bytes): the builder packs its UTF-8 encoding; it is
    recovered by decode_string over that many bytes and the value packed after it is still found at its place"""
    def text(s: str, v: bytes) -> bool:
        from pymodbus.payload import BinaryPayloadBuilder, BinaryPayloadDecoder
        assume(len(s) == 2 and len(v) == 2)
        raw = s.encode("utf-8")
        n = len(raw)
        b = BinaryPayloadBuilder(byteorder=byteorder, wordorder=wordorder)
        b.add_string(s)
        b.add_16bit_uint(be_int(v))
        img = b.to_string()
        if len(img) != n + 2:
            explain("text of %d UTF-8 bytes packed into %d bytes", n, len(img) - 2)
            return False
        d = BinaryPayloadDecoder(img, byteorder=byteorder, wordorder=wordorder)
        if d.decode_string(n) != raw:
            explain("text not recovered")
            return False
        return d.decode_16bit_uint() == be_int(v)
    return text


def bits_alias(data: bytes) -> bool:
    """what decode_bits() returns belongs to the caller: after it was extended / changed in place (as when a 16-bit
    group is gathered with `bits += decoder.decode_bits()`), decoding the same byte again still yields its 8 wire bits"""
    from pymodbus.payload import BinaryPayloadDecoder
    assume(len(data) == 1)
    exp = [bit_of(data[0], k) for k in range(8)]
    d1 = BinaryPayloadDecoder(data + data)
    first = d1.decode_bits()
    first += d1.decode_bits()
    first[0] = not first[0]
    d2 = BinaryPayloadDecoder(data)
    second = d2.decode_bits()
    if second is first:
        return False
    return same([bool(x) for x in second], [bool(x) for x in exp], "bits decoded after an earlier result was modified in place")


def make_misc(byteorder, wordorder):
    """less-travelled API: skip_bytes, reset (builder and decoder), strings of odd length, a 16-bit group of bits,
    a builder seeded with an existing payload, to_registers on an odd total length"""
    def misc(data: bytes) -> bool:
        from pymodbus.payload import BinaryPayloadBuilder, BinaryPayloadDecoder
        assume(len(data) == 9)
        b = BinaryPayloadBuilder(byteorder=byteorder, wordorder=wordorder)
        u16 = be_int(data[0:2])
        s5 = data[2:7]
        bits = [bit_of(data[7], k) for k in range(8)] + [bit_of(data[8], k) for k in range(8)]
        b.add_16bit_uint(u16)
        b.add_string(s5)
        b.add_bits(bits)
        img = b.to_string()
        exp = image_of("u16", data[0:2], byteorder, wordorder) + s5 + data[7:9]
        if not same(img, exp, "image"):
            return False
        d = BinaryPayloadDecoder(img, byteorder=byteorder, wordorder=wordorder)
        d.skip_bytes(2)
        if not same(d.decode_string(5), s5, "string after skip_bytes"):
            return False
        got_bits = d.decode_bits() + d.decode_bits()
        if not same(got_bits, bits, "16 bits"):
            return False
        d.reset()
        if not same(d.decode_16bit_uint(), u16, "value after decoder reset"):
            return False
        regs = b.to_registers()
        if len(regs) != 5:
            explain("%d registers for 9 bytes", len(regs))
            return False
        d2 = BinaryPayloadDecoder.fromRegisters(regs, byteorder=byteorder, wordorder=wordorder)
        if not same(d2.decode_16bit_uint(), u16, "via registers"):
            return False
        # a builder seeded with an existing payload list appends to it
        b2 = BinaryPayloadBuilder(payload=[img], byteorder=byteorder, wordorder=wordorder)
        b2.add_8bit_uint(data[0])
        if not same(b2.to_string(), img + data[0:1], "seeded builder"):
            return False
        b.reset()
        return same(b.to_string(), b"", "builder after reset")
    return misc


SINGLES = ["u8", "i8", "u16", "i16", "u32", "i32", "u64", "i64", "f16", "f32", "f64", "bits", "str3"]
SEQS_QUICK = [("u8", "u32"), ("i16", "f32", "u8"), ("str3", "i64"), ("bits", "u16", "i32")]
SEQS_THOROUGH = SEQS_QUICK + [("u64", "i8", "f64"), ("f16", "u8", "u8"), ("i32", "i32", "i32"), ("u8", "u8", "u8"),
                              ("str3", "str3", "u16"), ("f64", "f32", "f16"), ("i8", "i64", "bits")]


def obligations(tier):
    T = 120 if tier == "quick" else 900
    out = []
    seqs = [(t,) for t in SINGLES] + (SEQS_QUICK if tier == "quick" else SEQS_THOROUGH)
    for types in seqs:
        for bo in (">", "<"):
            for wo in (">", "<"):
                name = "seq.%s.byte%s.word%s" % ("+".join(types), "BE" if bo == ">" else "LE", "BE" if wo == ">" else "LE")
                contracts = ("bits",) if "bits" in types else ()
                out.append(Obl(name, make_seq(types, bo, wo), timeout=T, contracts=contracts,
                               bounds="values of types %s: every bit pattern (%d symbolic bytes); byteorder %s, wordorder %s; raw and register transport" % (
                                   list(types), sum(TYPES[t][0] for t in types), bo, wo)))
    for bo in (">", "<"):
        for wo in (">", "<"):
            if (bo, wo) in ((">", ">"), ("<", "<")) or tier != "quick":
                out.append(Obl("text.byte%s.word%s" % ("BE" if bo == ">" else "LE", "BE" if wo == ">" else "LE"), make_text(bo, wo), timeout=T,
                               bounds="add_string with a 2-character text string (str, every code point) followed by a symbolic u16: packed as its UTF-8 bytes, recovered, following value in place"))
            if (bo, wo) == (">", ">"):
                out.append(Obl("bits.alias", bits_alias, timeout=T,
                               bounds="decode_bits of a symbolic byte, result extended and changed in place, same byte decoded by a second decoder: its 8 wire bits (real unpack_bitstring)"))
            out.append(Obl("misc.byte%s.word%s" % ("BE" if bo == ">" else "LE", "BE" if wo == ">" else "LE"), make_misc(bo, wo), timeout=T,
                           contracts=("bits",), bounds="u16 + 5-byte string + 16 bits (9 symbolic bytes): skip_bytes, decoder/builder reset, odd total length via registers, builder seeded with a payload"))
    for t in ("f16", "f32", "f64"):
        for bo in (">", "<"):
            for wo in (">", "<"):
                out.append(Obl("extremes.%s.byte%s.word%s" % (t, "BE" if bo == ">" else "LE", "BE" if wo == ">" else "LE"),
                               make_extremes(t, bo, wo), timeout=T,
                               bounds="real float values: +-0, smallest/largest subnormal, smallest normal, largest finite and its predecessor, +-inf, 1.0, 1/3 (15 values, chosen by a symbolic index), through the real struct conversion"))
    if contracts is not None:
        from harness import kernels
        out.insert(0, kernels.K3(tier))
    return out
