"""C02 -- encode/decode are mutual inverses and encoding is pure.

Per message class x concrete shape (field values symbolic, derived from symbolic wire bytes):
  rt.<Class>      decode(encode(m)) is the same class with equal (normalised) fields
  pure.<Class>    m.encode() twice gives identical bytes; encoding leaves the public fields unchanged
  fix.<Class>     encode(decode(encode(m))) == encode(m)
  noacc.<Class>   decoding two different PDUs into the same object leaves exactly the second PDU's fields
"""
from engine.hlib import assume, same, explain
from engine.obl import Obl
from spec import pdu
from harness.c01 import fields_equal, _decoder, needs_bits

LEVEL = "model_checking"
EXPLANATION = ("Bounded symbolic model checking of the composition of the real encode() and decode() of every class "
               "in the decoder tables, plus call-history obligations (encode twice, decode twice into one object).")
ASSUMPTIONS = ["list lengths are the concrete shapes named in each obligation",
               "messages are built from spec-conformant field values (the reference well-formedness predicate)"]

KF = {
    "rt": {"ReportSlaveIdResponse": "KF-slaveid-decode", "ReadFifoQueueResponse": "KF-fifo-decode",
           "ReadFileRecordResponse": "KF-filerecord-response-encode"},
    "fix": {"ReadFileRecordResponse": "KF-filerecord-response-encode", "ReadFifoQueueResponse": "KF-fifo-decode",
            "ReportSlaveIdResponse": "KF-slaveid-decode"},
    "pure": {},
    "noacc": {"ReportSlaveIdResponse": "KF-slaveid-decode", "ReadFifoQueueResponse": "KF-fifo-decode",
              "ReadWriteMultipleRegistersResponse": "KF-rwregs-response-decode-accumulates"},
}


def _msg(S, shape, b):
    for c in S.wf(b, shape) + S.wf_enc(b, shape):
        assume(c)
    f = S.fields(b, shape)
    return S.build(f, shape), f


def make_rt(S, shape):
    L = S.blen(shape)

    def rt(b: bytes) -> bool:
        assume(len(b) == L)
        m, f = _msg(S, shape, b)
        wire = bytes([m.function_code]) + m.encode()
        m2 = _decoder(S.dir).decode(wire)
        if m2 is None or type(m2).__name__ != S.name:
            explain("decode(encode(m)) gave %r", type(m2).__name__)
            return False
        return fields_equal(S.get(m2, shape), S.get(m, shape))
    return rt


def make_pure(S, shape):
    L = S.blen(shape)

    def pure(b: bytes) -> bool:
        assume(len(b) == L)
        m, f = _msg(S, shape, b)
        before = S.get_inputs(m, shape)
        e1 = m.encode()
        mid = S.get_inputs(m, shape)
        e2 = m.encode()
        if not same(e2, e1, "second encode()"):
            return False
        e3 = m.encode()
        if not same(e3, e1, "third encode()"):
            return False
        return fields_equal(mid, before) and fields_equal(S.get_inputs(m, shape), before)
    return pure


def make_fix(S, shape):
    L = S.blen(shape)

    def fix(b: bytes) -> bool:
        assume(len(b) == L)
        m, f = _msg(S, shape, b)
        e1 = bytes([m.function_code]) + m.encode()
        m2 = _decoder(S.dir).decode(e1)
        if m2 is None:
            return False
        e2 = bytes([m2.function_code]) + m2.encode()
        if not same(e2, e1, "encode(decode(encode(m)))"):
            return False
        e3 = bytes([m2.function_code]) + m2.encode()
        return same(e3, e1, "freshly decoded object encoded twice")
    return fix


def make_noacc(S, shape):
    L = S.blen(shape)

    def noacc(b1: bytes, b2: bytes) -> bool:
        assume(len(b1) == L)
        assume(len(b2) == L)
        for c in S.wf(b1, shape) + S.wf(b2, shape):
            assume(c)
        dec = _decoder(S.dir)
        m = dec.decode(bytes([S.fc]) + b1)
        if m is None:
            return False
        m.decode(b2)                       # second decode into the same object
        fresh = dec.decode(bytes([S.fc]) + b2)
        return fields_equal(S.get(m, shape), S.get(fresh, shape)) and fields_equal(S.get(m, shape), S.fields(b2, shape))
    return noacc


def make_noacc2(S, shape1, shape2):
    """decode a PDU of one shape, then a PDU of ANOTHER shape (longer or shorter list) into the same object"""
    L1, L2 = S.blen(shape1), S.blen(shape2)

    def noacc2(b1: bytes, b2: bytes) -> bool:
        assume(len(b1) == L1)
        assume(len(b2) == L2)
        for c in S.wf(b1, shape1) + S.wf(b2, shape2):
            assume(c)
        dec = _decoder(S.dir)
        m = dec.decode(bytes([S.fc]) + b1)
        if m is None:
            return False
        m.decode(b2)
        fresh = dec.decode(bytes([S.fc]) + b2)
        return fields_equal(S.get(m, shape2), S.get(fresh, shape2)) and fields_equal(S.get(m, shape2), S.fields(b2, shape2))
    return noacc2


def obligations(tier):
    from harness import kernels
    T = 90 if tier == "quick" else 600
    out = [kernels.K3(tier)]
    for S in pdu.all_specs():
        shapes = S.shapes(tier)
        if S.name == "ReadDeviceInformationResponse" and tier == "quick":
            # the object list that fills the 253-byte PDU exactly (246 object bytes): the budget boundary of encode();
            # placed first so that the noacc.* pick (last shape) is unchanged
            shapes = [((0, 244),)] + list(shapes)
        for shape in shapes:
            key = S.key(shape)
            contracts = ("bits",) if needs_bits(S) else ()
            lem = ("K3",) if contracts else ()
            bounds = "%s PDU, shape %s: all field values symbolic (derived from %d symbolic body bytes)" % (S.dir, shape, S.blen(shape))
            for op, mk in (("rt", make_rt), ("pure", make_pure), ("fix", make_fix), ("noacc", make_noacc)):
                if op == "noacc" and tier == "quick" and shape != shapes[-1]:
                    continue
                wf = KF[op].get(S.name)
                if S.name == "ReadFifoQueueResponse" and shape == 0:
                    wf = None
                out.append(Obl("%s.%s" % (op, key), mk(S, shape), bounds=bounds, timeout=T, contracts=contracts, lemmas=lem,
                               whole_finding=wf))
        # a second decode of a DIFFERENT shape (shorter / longer / empty list) into the same object
        qs = S.shapes("quick")
        if len(qs) >= 2:
            small, big = min(qs, key=S.blen), max(qs, key=S.blen)
            if S.blen(small) != S.blen(big):
                contracts = ("bits",) if needs_bits(S) else ()
                for a, b in ((big, small), (small, big)):
                    out.append(Obl("noacc2.%s->%s" % (S.key(a), str(b).replace(" ", "")), make_noacc2(S, a, b), timeout=T,
                                   contracts=contracts, lemmas=("K3",) if contracts else (), whole_finding=KF["noacc"].get(S.name),
                                   bounds="%s PDU: decode shape %s, then shape %s into the same object; all field values symbolic" % (S.dir, a, b)))
    return out
