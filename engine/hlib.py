"""Harness library: the small vocabulary harness functions use.

Works in two worlds:
  * under CrossHair (symbolic): assume() prunes the path, known() carves known findings;
  * plain Python (replay of a counterexample on the unpatched real code): assume() raises
    AssumeFailed (the replay then reports 'precondition not met', never a violation).
"""
import json
import os

STATE = {
    "symbolic": False,     # set True by the worker before analysis
    "witness": None,       # known-finding id whose region is being examined (witness obligation), else None
    "active_findings": None,
}

KF_PATH = os.path.join(os.path.dirname(os.path.dirname(os.path.abspath(__file__))), "known_findings.json")


class AssumeFailed(Exception):
    pass


def _load_findings():
    if STATE["active_findings"] is None:
        act = {}
        try:
            with open(KF_PATH) as f:
                data = json.load(f)
            for e in data.get("findings", []):
                if e.get("status") == "finding":
                    act[e["id"]] = e
        except FileNotFoundError:
            pass
        STATE["active_findings"] = act
    return STATE["active_findings"]


def finding_active(fid):
    return fid in _load_findings()


def assume(cond):
    """Restrict the domain of the obligation (part of its stated bounds)."""
    if STATE["symbolic"]:
        # bool() under tracing forks the path on a symbolic condition
        if not cond:
            from crosshair.util import IgnoreAttempt
            raise IgnoreAttempt("assume")
    else:
        if not cond:
            raise AssumeFailed()


def known(fid, in_region):
    """Carve-out for a listed known finding.

    Main obligation: inputs inside the finding's region are assumed away (so the rest of the
    domain is still decided). Witness obligation for `fid`: only inputs inside the region are
    kept. If `fid` is not an active entry of known_findings.json nothing is carved and a
    violation there is reported as a VIOLATION.
    """
    if STATE["witness"] == fid:
        assume(in_region)
        return
    if finding_active(fid):
        assume(not in_region)


def in_witness(fid):
    return STATE["witness"] == fid


def u16(b, i):
    """Big-endian 16-bit field from two bytes of a (possibly symbolic) bytes object."""
    return b[i] * 256 + b[i + 1]


def be16(v):
    return bytes([v // 256, v % 256])


NOTES = []


def explain(fmt, *args):
    """Record a human-readable explanation (only during concrete replay; no-op under the solver)."""
    if not STATE["symbolic"]:
        try:
            NOTES.append(fmt % args if args else fmt)
        except Exception:
            NOTES.append(fmt)
    elif os.environ.get("VERIF_DEBUG"):
        try:
            from crosshair.tracers import NoTracing
            with NoTracing():
                txt = fmt % tuple(a if isinstance(a, (int, str, list, tuple)) and type(a) in (int, str, list, tuple) else "?" for a in args)
        except Exception:
            txt = fmt
        raise RuntimeError("explain: " + txt)        # debugging aid: shows which check failed on the symbolic path


def same(got, exp, what=""):
    """Equality that explains itself on replay."""
    ok = got == exp
    if not STATE["symbolic"] and not ok:
        explain("%s: got %r, expected %r", what, got, exp)
    return ok


def bit_of(byte, k):
    """bit k (LSB = 0) of a byte value as a bool"""
    if STATE["symbolic"]:
        from engine import chmodels
        return chmodels.bit_of(byte, k)
    return (byte >> k) & 1 == 1


def crc16(data):
    """CRC-16/Modbus register value of data (low byte goes first on the wire).

    Concrete replay: the bit-serial reference of spec/checksums.py. Under the solver: the same
    uninterpreted fold the computeCRC contract uses (lemma K1 ties the real loop body to the reference step),
    so 'frame carries crc16(body)' means the same thing on both sides of an equality."""
    if STATE["symbolic"]:
        from engine import chmodels
        return chmodels.crc_fold(data)
    from spec.checksums import crc16_modbus
    return crc16_modbus(bytes(data))


def hex2(v):
    """two upper-case hex characters (bytes) for a byte value"""
    if STATE["symbolic"]:
        from engine import chmodels
        return chmodels.hex2_upper(v)
    return b"%02X" % v


def pack_bits(bits):
    """reference LSB-first packing of a list of (possibly symbolic) bools into bytes, zero padded"""
    if STATE["symbolic"]:
        from engine import chmodels
        return chmodels.ref_pack_bits(bits)
    out = bytearray((len(bits) + 7) // 8)
    for i, b in enumerate(bits):
        if b:
            out[i // 8] |= 1 << (i % 8)
    return bytes(out)


def bitand16(a, b):
    """a & b for 16-bit values"""
    if STATE["symbolic"]:
        from engine import chmodels
        return chmodels.bv16(a, b, "and")
    return a & b


def bitor16(a, b):
    if STATE["symbolic"]:
        from engine import chmodels
        return chmodels.bv16(a, b, "or")
    return a | b


def bitnot16(a):
    """one's complement of a 16-bit value"""
    if STATE["symbolic"]:
        from engine import chmodels
        return chmodels.bitnot16(a)
    return 65535 - a


def eqdict():
    """An empty dict for state that pymodbus keys by a (possibly symbolic) integer id.

    Under the solver: CrossHair's hash-free mapping (keys compared by equality, so a symbolic key is not
    concretised); in concrete replay: a real dict. Same observable behaviour for integer keys."""
    if STATE["symbolic"]:
        from crosshair.simplestructs import ShellMutableMap, SimpleDict
        return ShellMutableMap(SimpleDict([]))
    return {}


def be_int(raw, signed=False):
    """integer value of big-endian bytes (two's complement if signed)"""
    if STATE["symbolic"]:
        from engine import chmodels
        return chmodels.compose_be(raw, signed)
    return int.from_bytes(bytes(raw), "big", signed=signed)


def hexpair(c0, c1):
    """(valid, value) of two ASCII hex characters (either case) as a byte value; symbolic-friendly"""
    if STATE["symbolic"]:
        from engine import chmodels
        return chmodels.hexpair(c0, c1)
    ok = all(chr(c) in "0123456789abcdefABCDEF" for c in (c0, c1))
    return ok, (int(bytes([c0, c1]).decode("ascii"), 16) if ok else 0)


def is_hex(c):
    if STATE["symbolic"]:
        from engine import chmodels
        return chmodels.is_hex(c)
    return chr(c) in "0123456789abcdefABCDEF"


def lnot(x):
    """logical negation that stays symbolic (never use ~ on bools: ~True == -2 is truthy)"""
    if STATE["symbolic"]:
        from engine import chmodels
        return chmodels.lnot(x)
    return not x


def crc16_from(stream, i):
    """list c where c[j] = crc16(stream[i:j]) for j in i..len(stream) (index j-i); one pass"""
    if STATE["symbolic"]:
        from engine import chmodels
        return chmodels.crc_fold_all(stream, i)
    from spec.checksums import crc16_modbus
    return [crc16_modbus(bytes(stream[i:j])) for j in range(i, len(stream) + 1)]


def lohi(c):
    """(low byte, high byte) of a 16-bit value"""
    if STATE["symbolic"]:
        from engine import chmodels
        return chmodels.split16(c)
    return c % 256, c // 256
