"""C17 -- all server front-ends are behaviourally interchangeable.

diff.<stream|dgram>.<framing>.fc<N>[+fc<M>]: the same symbolic request bytes (1-2 requests of the given function
codes; every body byte, the transaction ids, the unit id and the initial datastore symbolic -- valid and invalid
requests alike) are given to the synchronous, asyncio and Twisted front-ends, each on its own copy of the same
initial datastore. Asserted: byte-identical output streams and identical final datastores, pairwise.
iso.<frontend>: two connections on one front-end with interleaved reads a1, b, a2 (a1/a2 = the two halves of one
ASCII frame): each connection's output equals what it gets when served alone -- framing state is private.
"""
from engine.hlib import assume, same, explain, known
from engine.obl import Obl
from spec import adu
from harness import serverlib as SL
from harness.c04 import body_len
from harness.c09 import CONTRACTS, LEMMAS

LEVEL = "model_checking"
EXPLANATION = ("Differential bounded symbolic model checking: the three front-ends' handler/execute/send code paths are run on the "
               "same symbolic inputs and compared with each other (no reference model needed); plus an interleaving obligation for "
               "the privacy of per-connection framing state.")
ASSUMPTIONS = ["front-ends driven through fake sockets/transports and a queue-only event loop; one to two requests, reads are whole frames (iso.*: one ASCII frame split in two)",
               "features all front-ends support: no broadcast (Twisted has no such option); the Twisted-UDP listen-only response is a listed known finding of C09",
               "interleaving on the synchronous front-end is emulated at recv() boundaries (connection B's whole session runs while connection A waits for more data)"]

TRIO = {"stream": ["sync-tcp", "asyncio-tcp", "twisted-tcp"], "dgram": ["sync-udp", "asyncio-udp", "twisted-udp"]}


def _regs(st, o):
    return [st[o + 2 * i] * 256 + st[o + 2 * i + 1] for i in range(4)]


def _fresh(st):
    bits = [st[8] % 2 == 1, st[9] % 2 == 1, st[10] % 2 == 1, st[11] % 2 == 1]
    slave = SL.small_context(hr=_regs(st, 0), co=bits)
    return slave, SL.server_context(slave, single=True)


QUICK_MEI = [False]


def make_diff(kind, framing, fcs, one_read, burst=False):
    lens = [body_len(fc, 1) if fc in (15, 16, 23) else (3 if fc == 43 else (4 if fc == 8 else body_len(fc, None))) for fc in fcs]

    def diff(t: bytes, u: int, b: bytes, st: bytes) -> bool:
        assume(len(t) == 2 * len(fcs) and len(b) == sum(lens) and len(st) == 12)
        assume(0 <= u <= 255)
        if framing != "tcp":
            assume(u != 0)
        frames, o = [], 0
        for i, fc in enumerate(fcs):
            body = b[o:o + lens[i]]
            o += lens[i]
            if fc == 8:
                assume(body[0] == 0)
                assume(body[1] != 4)              # Force Listen Only Mode: see C09's known finding on Twisted UDP
            if fc == 43 and QUICK_MEI[0]:
                # quick tier: MEI type 14, any read code (0 and > 4 included), object ids 0..8 (the identity is a dictionary)
                assume(body[0] == 14)
                assume(body[2] <= 8)
            frames.append(adu.ref_adu(framing, bytes([fc]) + body, u, t[2 * i:2 * i + 2]))
        chunks = [b"".join(frames)] if (one_read and kind == "stream") else frames
        results = []
        for fe in TRIO[kind]:
            slave, ctx = _fresh(st)
            r = SL.drive(fe, framing, ctx, chunks, burst=burst)     # (burst: asyncio segments arrive before the handler task runs)
            from pymodbus.device import ModbusControlBlock
            ModbusControlBlock().ListenOnly = False
            if r.escaped is not None:
                explain("%s: exception escaped: %r", fe, r.escaped)
                return False
            # "connection given up by the server": the sync/asyncio handlers close it themselves; Twisted's reactor drops a
            # connection whose dataReceived raised. Datagram front-ends have no connection to give up.
            if kind == "dgram" and fe == "twisted-udp" and len(chunks) > 1 and fcs[0] in (16, 23):
                # the listed finding: a datagram whose decode raises (it promises more register data than it carries)
                # stays in the shared framer's buffer and makes the NEXT datagram raise
                from harness import c04
                known("KF-twisted-udp-stale-buffer", (r.twisted_dropped is not None) and c04._regs_short(fcs[0], b[0:lens[0]]))
            gave_up = (r.closed or r.twisted_dropped is not None) if kind == "stream" else False
            results.append((fe, b"".join(r.written), SL.dump(slave), gave_up))
        base = results[0]
        for other in results[1:]:
            if other[3] != base[3]:
                explain("%s gave the connection up: %r, %s: %r", other[0], other[3], base[0], base[3])
                return False
            if not same(other[1], base[1], "output of %s vs %s" % (other[0], base[0])):
                return False
            if not same(other[2], base[2], "final datastore of %s vs %s" % (other[0], base[0])):
                return False
        return True
    return diff


def make_diff_multi(kind, framing, im, one_read):
    """multi-unit context hosting unit 255 (so the framer lets every unit id through) and unit 1; two requests whose
    unit ids are symbolic (hosted or not), pipelined in one read or one per read; ignore_missing_slaves enumerated"""
    def diffm(t: bytes, ids: bytes, b: bytes, st: bytes) -> bool:
        assume(len(t) == 4 and len(ids) == 2 and len(b) == 8 and len(st) == 24)
        frames = [adu.ref_adu(framing, bytes([6]) + b[0:4], ids[0], t[0:2]),
                  adu.ref_adu(framing, bytes([6]) + b[4:8], ids[1], t[2:4])]
        chunks = [b"".join(frames)] if (one_read and kind == "stream") else frames
        results = []
        for fe in TRIO[kind]:
            sA, _ = _fresh(st[0:12])
            sB, _ = _fresh(st[12:24])
            ctx = SL.server_context(None, single=False, units=[(255, sA), (1, sB)])
            r = SL.drive(fe, framing, ctx, chunks, ignore_missing=im)
            if r.escaped is not None:
                explain("%s: exception escaped: %r", fe, r.escaped)
                return False
            gave_up = (r.closed or r.twisted_dropped is not None) if kind == "stream" else False
            results.append((fe, b"".join(r.written), (SL.dump(sA), SL.dump(sB)), gave_up))
        base = results[0]
        for other in results[1:]:
            if other[3] != base[3]:
                explain("%s gave the connection up: %r, %s: %r", other[0], other[3], base[0], base[3])
                return False
            if not same(other[1], base[1], "output of %s vs %s" % (other[0], base[0])):
                return False
            if not same(other[2], base[2], "final datastores of %s vs %s" % (other[0], base[0])):
                return False
        return True
    return diffm


class _Switch(object):
    def __init__(self, fn):
        self.fn = fn


class _Timeout(object):
    """script entry: this recv() call times out (socket.timeout), as on an idle connection"""


class _NestedSocket(SL.FakeSocket):
    """script entries of type _Switch are run (another connection's whole session) before the next read returns;
    entries of type _Timeout make that recv() raise socket.timeout"""
    def recv(self, n):
        while self.chunks and type(self.chunks[0]) is _Switch:
            self.chunks.pop(0).fn()
        if self.chunks and type(self.chunks[0]) is _Timeout:
            self.chunks.pop(0)
            import socket
            raise socket.timeout("idle")
        return SL.FakeSocket.recv(self, n)


def _iso_run(frontend, ctx, a_chunks, b_chunks, interleave):
    """returns (outA, outB) for connection A fed a_chunks and connection B fed b_chunks; interleave: a1, b..., a2"""
    from pymodbus.factory import ServerDecoder
    from spec.adu import framer_class
    F = framer_class("ascii")
    outA, outB = SL.Result(), SL.Result()
    if frontend == "sync-tcp":
        import pymodbus.server.sync as S
        server = SL.FakeServer(F, ctx, ServerDecoder(), False, False)

        def run_b():
            S.ModbusConnectedRequestHandler(SL.FakeSocket(list(b_chunks), outB, False), ("peerB", 2), server)
        script = [a_chunks[0], _Switch(run_b), a_chunks[1]] if interleave else list(a_chunks)
        S.ModbusConnectedRequestHandler(_NestedSocket(script, outA, False), ("peerA", 1), server)
        if not interleave:
            run_b()
    elif frontend == "twisted-tcp":
        import pymodbus.server.asynchronous as T
        f = T.ModbusServerFactory(ctx, F)
        pa, pb = T.ModbusTcpProtocol(), T.ModbusTcpProtocol()
        for p, res in ((pa, outA), (pb, outB)):
            p.factory = f
            p.transport = SL.FakeTransport(res)
            p.connectionMade()
        order = [(pa, a_chunks[0])] + [(pb, c) for c in b_chunks] + [(pa, a_chunks[1])] if interleave else \
            [(pa, c) for c in a_chunks] + [(pb, c) for c in b_chunks]
        for p, c in order:
            p.dataReceived(c)
    else:
        import asyncio.events as events
        import pymodbus.server.async_io as A
        loop = SL.MiniLoop()
        old = events._get_running_loop()
        events._set_running_loop(loop)
        try:
            server = SL.FakeServer(F, ctx, ServerDecoder(), False, False)
            ha, hb = A.ModbusConnectedRequestHandler(server), A.ModbusConnectedRequestHandler(server)
            ha.connection_made(SL.FakeTransport(outA))
            hb.connection_made(SL.FakeTransport(outB))
            loop.run_pending()
            order = [(ha, a_chunks[0])] + [(hb, c) for c in b_chunks] + [(ha, a_chunks[1])] if interleave else \
                [(ha, c) for c in a_chunks] + [(hb, c) for c in b_chunks]
            for h, c in order:
                h.data_received(c)
                loop.run_pending()
        finally:
            events._set_running_loop(old)
    return b"".join(outA.written), b"".join(outB.written)


def make_idle_timeout(framing):
    """synchronous stream front-end: a recv() time-out while the connection is idle (and one between the two halves of a
    split frame) must not change what the connection is answered"""
    def idle(t: bytes, v: bytes, st: bytes) -> bool:
        import pymodbus.server.sync as S
        from pymodbus.factory import ServerDecoder
        assume(len(t) == 4 and len(v) == 4 and len(st) == 12)
        f1 = adu.ref_adu(framing, bytes([6, 0, 0, v[0], v[1]]), 1, t[0:2])
        f2 = adu.ref_adu(framing, bytes([3, 0, 0, 0, 1]), 1, t[2:4])
        half = 7 if framing == "ascii" else len(f1)
        outs = []
        for script in ([f1[:half], f1[half:], f2], [_Timeout(), f1[:half], f1[half:], _Timeout(), f2]):
            script = [c for c in script if type(c) is _Timeout or len(c) > 0]
            slave, ctx = _fresh(st)
            res = SL.Result()
            server = SL.FakeServer(adu.framer_class(framing), ctx, ServerDecoder(), False, False)
            S.ModbusConnectedRequestHandler(_NestedSocket(script, res, False), ("peer", 1), server)
            outs.append((b"".join(res.written), SL.dump(slave)))
        if len(outs[0][0]) == 0:
            return False
        return same(outs[1][0], outs[0][0], "output with idle time-outs vs without") and same(outs[1][1], outs[0][1], "datastore")
    return idle


def make_peers(frontend, burst):
    """datagram front-ends with two peers: A writes register 0, B reads register 1; the datagrams arrive one after
    the other (burst: back-to-back, before the server's handler task runs). Each peer must be sent exactly the reply
    to its own request, whoever else is talking to the server"""
    def peers(t: bytes, v: bytes, st: bytes) -> bool:
        assume(len(t) == 4 and len(v) == 2 and len(st) == 12)
        fa = adu.ref_adu("tcp", bytes([6, 0, 0, v[0], v[1]]), 1, t[0:2])
        fb = adu.ref_adu("tcp", bytes([3, 0, 1, 0, 1]), 1, t[2:4])
        A, B = ("10.0.0.1", 40001), ("10.0.0.2", 40002)
        s0, c0 = _fresh(st)
        ra = SL.drive(frontend, "tcp", c0, [fa])
        rb = SL.drive(frontend, "tcp", c0, [fb])           # (B reads a cell A does not write)
        if len(ra.written) != 1 or len(rb.written) != 1:
            return False
        s1, c1 = _fresh(st)
        r = SL.drive(frontend, "tcp", c1, [fa, fb], peers=[A, B], burst=burst)
        if r.escaped is not None or r.twisted_dropped is not None:
            explain("exception: %r", r.escaped or r.twisted_dropped)
            return False
        to_a = [d for (addr, d) in r.sent_to if addr == A]
        to_b = [d for (addr, d) in r.sent_to if addr == B]
        if len(to_a) + len(to_b) != len(r.sent_to):
            explain("a datagram was sent to neither peer: %r", r.sent_to)
            return False
        if len(to_a) != 1 or len(to_b) != 1:
            explain("datagrams sent to A: %d, to B: %d", len(to_a), len(to_b))
            return False
        return same(to_a[0], ra.written[0], "reply sent to peer A") and same(to_b[0], rb.written[0], "reply sent to peer B") and \
            same(SL.dump(s1), SL.dump(s0), "datastore")
    return peers


def udp_datagram_size(dummy: bool) -> bool:
    """the datagram front-ends must take in every request the stream front-ends take in: the real synchronous
    ModbusUdpServer (socket creation stubbed) reads datagrams of at least the maximum Modbus/TCP ADU (7 + 253 bytes)"""
    import socketserver
    import pymodbus.server.sync as S
    from pymodbus.datastore import ModbusServerContext
    ctx = ModbusServerContext(slaves=SL.small_context(), single=True)
    orig = socketserver.ThreadingUDPServer.__init__
    socketserver.ThreadingUDPServer.__init__ = lambda self, *a, **k: None
    try:
        srv = S.ModbusUdpServer(ctx)
    finally:
        socketserver.ThreadingUDPServer.__init__ = orig
    if srv.max_packet_size < 260:
        explain("the synchronous UDP server reads at most %r bytes of a datagram; a request ADU can have 260", srv.max_packet_size)
        return False
    return True


def make_iso(frontend):
    def iso(t: bytes, v: bytes, st: bytes) -> bool:
        assume(len(t) == 4 and len(v) == 4 and len(st) == 12)
        # A writes register 0, B writes register 1 then reads register 2: disjoint cells
        fa = adu.ref_adu("ascii", bytes([6, 0, 0, v[0], v[1]]), 1, t[0:2])
        fb1 = adu.ref_adu("ascii", bytes([6, 0, 1, v[2], v[3]]), 1, t[2:4])
        fb2 = adu.ref_adu("ascii", bytes([3, 0, 2, 0, 1]), 1, t[2:4])
        a_chunks = [fa[:7], fa[7:]]
        b_chunks = [fb1, fb2]
        s1, c1 = _fresh(st)
        alone = _iso_run(frontend, c1, a_chunks, b_chunks, False)
        s2, c2 = _fresh(st)
        mixed = _iso_run(frontend, c2, a_chunks, b_chunks, True)
        if not same(mixed[0], alone[0], "connection A's output, interleaved vs alone"):
            return False
        if not same(mixed[1], alone[1], "connection B's output, interleaved vs alone"):
            return False
        if len(alone[0]) == 0 or len(alone[1]) == 0:
            explain("a connection got no answer at all")
            return False
        return same(SL.dump(s2), SL.dump(s1), "final datastore")
    return iso


def obligations(tier):
    from harness import kernels
    T = 300 if tier == "quick" else 1500
    out = [kernels.K1(tier), kernels.K2(tier)]
    singles = [3, 6, 16, 5, 43] if tier == "quick" else [1, 2, 3, 4, 5, 6, 15, 16, 22, 23, 43, 8, 7, 17]
    QUICK_MEI[0] = (tier == "quick")
    pairs = [(6, 3), (16, 3)] if tier == "quick" else [(6, 3), (16, 3), (5, 1), (15, 1), (22, 3), (23, 3), (6, 6)]
    lenfix = {7: 0, 17: 0, 11: 0, 12: 0}
    for kind in ("stream", "dgram"):
        framings = ["tcp"] if tier == "quick" else (["tcp", "rtu"] if kind == "stream" else ["tcp"])
        for fr in framings:
            for fc in singles:
                if fc in lenfix:
                    continue
                out.append(Obl("diff.%s.%s.fc%d" % (kind, fr, fc), make_diff(kind, fr, (fc,), False), timeout=T,
                               contracts=CONTRACTS[fr] + (("bits",) if fc in (1, 2, 15) else ()), lemmas=LEMMAS[fr],
                               bounds="%s front-ends (%s), %s framing: one request with function code %d, every body byte / tid / unit id / initial coils and registers symbolic (valid and invalid requests)" % (kind, ", ".join(TRIO[kind]), fr, fc)))
            for fa, fb in pairs:
                for one_read in ((True, False) if kind == "stream" and fr == "tcp" else (False,)):
                    if tier == "quick" and one_read and (fa, fb) != (6, 3):
                        continue
                    out.append(Obl("diff.%s.%s.fc%d+fc%d.%s" % (kind, fr, fa, fb, "one-read" if one_read else "two-reads"),
                                   make_diff(kind, fr, (fa, fb), one_read), timeout=T,
                                   findings=("KF-twisted-udp-stale-buffer",) if kind == "dgram" and fa == 16 else (),
                                   contracts=CONTRACTS[fr] + (("bits",) if fa in (15,) or fb in (1,) else ()), lemmas=LEMMAS[fr],
                                   bounds="%s front-ends, %s framing: two requests (fc %d then fc %d), all bytes symbolic, %s" % (kind, fr, fa, fb, "pipelined in one read" if one_read else "one per read")))
    for fr in (("rtu",) if tier == "quick" else ("rtu", "tcp")):
        out.append(Obl("diff.stream.%s.fc6+fc3.two-reads.back-to-back" % fr, make_diff("stream", fr, (6, 3), False, burst=True), timeout=T,
                       contracts=CONTRACTS[fr], lemmas=LEMMAS[fr],
                       bounds="stream front-ends, %s framing: two requests (fc 6 then fc 3) in two segments that reach the asyncio handler back-to-back (before its task runs); all bytes symbolic" % fr))
    for kind in ("stream", "dgram"):
        for im in (False, True):
            for one_read in ((True, False) if kind == "stream" else (False,)):
                if tier == "quick" and kind == "dgram" and not im:
                    continue
                out.append(Obl("diff.%s.tcp.multi-unit.im=%s.%s" % (kind, im, "one-read" if one_read else "two-reads"),
                               make_diff_multi(kind, "tcp", im, one_read), timeout=T,
                               bounds="%s front-ends, two hosted units (255 and 1), two FC6 requests with SYMBOLIC unit ids (hosted or absent), ignore_missing_slaves=%s, %s; all contents symbolic" % (kind, im, "pipelined in one read" if one_read else "one per read")))
    for fr in ("ascii", "tcp"):
        out.append(Obl("idle-timeout.sync-tcp.%s" % fr, make_idle_timeout(fr), timeout=T, contracts=CONTRACTS[fr], lemmas=LEMMAS[fr],
                       bounds="synchronous stream handler, %s framer: recv() time-outs before the first request and between requests%s; values, tids, initial store symbolic" % (fr, " and a request split in two reads" if fr == "ascii" else "")))
    out.append(Obl("config.sync-udp.datagram-size", udp_datagram_size, timeout=T, twin=False,
                   bounds="real ModbusUdpServer object (socket creation stubbed): the size it passes to recvfrom covers a 260-byte ADU"))
    for fe in ("sync-udp", "asyncio-udp", "twisted-udp"):
        for burst in ((True,) if fe == "asyncio-udp" else (False,)) + ((False,) if fe == "asyncio-udp" else ()):
            out.append(Obl("peers.%s.%s" % (fe, "back-to-back" if burst else "spaced"), make_peers(fe, burst), timeout=T,
                           bounds="%s: two peers, one datagram each (FC6 with symbolic value / FC3), %s; tids and initial store symbolic; each peer is sent exactly the reply to its own request" % (fe, "delivered back-to-back before the handler task runs" if burst else "one at a time")))
    for fe in ("sync-tcp", "asyncio-tcp", "twisted-tcp"):
        out.append(Obl("iso.%s" % fe, make_iso(fe), timeout=T, contracts=("lrc",), lemmas=("K2",),
                       bounds="%s with the ASCII framer: connection A's frame split in two reads with connection B's two requests in between; values, tids and initial store symbolic" % fe))
    return out
