"""C12 -- no received byte sequence can crash a server or corrupt its data.

any.<frontend>.<framing>.fc<N>.len<L>.<reads>: ANY byte string B of length L (all bytes symbolic except the
function-code position) is sent to one connection of a front-end in one read or split in two. Asserted:
  * no exception leaves the front-end's entry points (for Twisted the reactor contract applies: an exception in
    dataReceived/datagramReceived is logged and only that connection / datagram is dropped);
  * the datastore afterwards is either unchanged or is what the reference model prescribes for a write request
    that a frame in B carries with a valid integrity check (C07's recogniser);
  * a well-formed probe request on a FRESH connection to the same server is then answered correctly.
"""
from engine.hlib import assume, same, explain, known
from engine.obl import Obl
from spec import adu, regfile
from harness import serverlib as SL
from harness.c07 import SpyDecoder, JUST, FCPOS

LEVEL = "model_checking"
EXPLANATION = ("Bounded symbolic model checking of every front-end's serving loop, framer and decoder on arbitrary input bytes: "
               "no escaping exception, data changes only as justified write requests prescribe, service continues.")
ASSUMPTIONS = ["buffers of the stated length, one or two reads, one connection then a fresh probe connection; function-code byte concrete per obligation",
               "front-ends driven as in C09; Twisted's reactor contract (exception in dataReceived drops that connection only) is part of the environment model",
               "RTU/binary CRC appears as the uninterpreted-step contract (K1), the same function on the receiver's and the recogniser's side"]


def make_any(frontend, framing, fc, L, reads):
    def anyb(B: bytes, st: bytes) -> bool:
        from pymodbus.factory import ServerDecoder
        assume(len(B) == L and len(st) == 8)
        if framing == "ascii":
            hx = b"%02X" % fc
            assume(B[0] == 0x3A)
            assume(B[3] == hx[0])
            assume(B[4] == hx[1])
            from harness.c07 import _lenient_lrc
            known("KF-ascii-lenient-lrc-field", _lenient_lrc(B))
        elif framing == "binary":
            assume(B[0] == 0x7B)
            assume(B[2] == fc)
        else:
            assume(B[FCPOS[framing]] == fc)
        regs = [st[2 * i] * 256 + st[2 * i + 1] for i in range(4)]
        slave = SL.small_context(hr=regs)
        ctx = SL.server_context(slave, single=True)
        spy = SpyDecoder(ServerDecoder())
        chunks = [B] if reads == 1 else [B[:L // 2], B[L // 2:]]
        r = SL.drive(frontend, framing, ctx, chunks, decoder=spy)
        if r.escaped is not None:
            explain("%s escaped the front-end: %s", type(r.escaped).__name__, r.escaped)
            return False
        after = list(slave.store["h"].values)
        others_ok = list(slave.store["c"].values) == [False] * 4 and list(slave.store["d"].values) == [False] * 4 and \
            list(slave.store["i"].values) == [0] * 4
        if not others_ok:
            explain("a table other than the holding registers changed")
            return False
        if after != list(regs):
            ok = False
            for pdu, res in spy.log:
                if res is None or len(pdu) != 5 or pdu[0] != 6:
                    continue
                if reads == 1 and not JUST[framing](B, pdu, res):
                    continue
                exp = regfile.model(6, pdu[1:5], (0, list(regs)), True)[1]
                if after == exp:
                    ok = True
            if not ok:
                explain("holding registers changed from %r to %r without a justified write request in the input", list(regs), after)
                return False
        # service continues: probe on a fresh connection
        probe = adu.ref_adu(framing, bytes([3, 0, 0, 0, 2]), 1, b"\x12\x34")
        r2 = SL.drive(frontend, framing, ctx, [probe])
        if r2.escaped is not None or r2.twisted_dropped is not None:
            explain("probe connection failed: %r", r2.escaped or r2.twisted_dropped)
            return False
        exp_pdu = bytes([3, 4]) + bytes([after[0] // 256, after[0] % 256, after[1] // 256, after[1] % 256])
        return len(r2.written) == 1 and same(r2.written[0], adu.ref_adu(framing, exp_pdu, 1, b"\x12\x34"), "probe response")
    return anyb


def obligations(tier):
    from harness import kernels
    T = 300 if tier == "quick" else 1800
    out = [kernels.K1(tier), kernels.K2(tier)]
    contracts = {"tcp": (), "rtu": ("crc",), "binary": ("crc",), "ascii": ("lrc",)}
    lem = {"tcp": (), "rtu": ("K1",), "binary": ("K1",), "ascii": ("K2",)}
    plan = []
    for fe in SL.FRONTENDS:
        if fe == "sync-serial":
            frs = [("rtu", 8), ("ascii", 17)] if tier == "quick" else [("rtu", 8), ("rtu", 9), ("ascii", 17), ("binary", 10)]
        else:
            frs = [("tcp", 12)] if tier == "quick" else [("tcp", 12), ("tcp", 9), ("tcp", 14)]
            if fe in ("sync-tcp", "twisted-tcp") and tier != "quick":
                frs += [("rtu", 8)]
        for fr, L in frs:
            fcs = [6, 16] if tier == "quick" else [3, 6, 16, 23, 8, 43, 0x55, 0x86]
            if fr == "ascii" and tier == "quick":
                fcs = [6]
            if fr == "rtu" and tier == "quick":
                fcs = [6, 0x55]           # byte-count based sizes (fc 16) make the engine enumerate the count: thorough
            for fc in fcs:
                for reads in ((1, 2) if fe in SL.STREAM else (1,)):
                    if tier == "quick" and reads == 2 and (fc != 6 or fr == "ascii"):
                        continue
                    plan.append((fe, fr, fc, L, reads))
    for fe, fr, fc, L, reads in plan:
        out.append(Obl("any.%s.%s.fc%d.len%d.reads%d" % (fe, fr, fc, L, reads), make_any(fe, fr, fc, L, reads), timeout=T,
                       contracts=contracts[fr], lemmas=lem[fr], findings=("KF-ascii-lenient-lrc-field",) if fr == "ascii" and reads == 1 else (),
                       bounds="%s front-end, %s framing: any %d-byte input with function-code byte 0x%02X in %d read(s); 4 symbolic registers; then a probe on a fresh connection" % (fe, fr, L, fc, reads)))
    return out
