"""Regenerates MANIFEST.json from the table below (run after adding a property's harness)."""
import json, os
ROOT = os.path.dirname(os.path.dirname(os.path.abspath(__file__)))
TECH = "bounded symbolic execution of the real pymodbus code (CrossHair) with z3 deciding each path; counterexamples replayed concretely"
CHECKS = {}
CHECKS["C18"] = dict(cat="model_checking", ref="DESIGN.md 4/C18",
    text="Solver-decided single-step obligations over an arbitrary block state (symbolic start, length<=6, contents, address, count): validate iff range inside, read returns the cells, write changes exactly the addressed cells, reset, zero-mode offset and fc->table map for all ten codes, server-context routing over a symbolic unit dict. Every path z3-checked; bounded, not a proof.",
    note="Bounds: block length 1..6 (sparse: subsets of a 4-address window at bases 0/65530), 1..4 written values, <=3 hosted units. Induction from one step to histories is an argument on paper. Trusts CrossHair's Python models and z3. Sparse blocks are built by the real constructor with a symbolic key subset and insertion order; reset() keeps the address map.",
    technique=TECH)
CHECKS["C01"] = dict(cat="model_checking", ref="DESIGN.md 4/C01",
    text="Every encode()/decode() in the server and client decoder tables (incl. diagnostic sub-classes and exception responses) is executed symbolically on arbitrary spec-conformant body bytes of a concrete shape and compared with reference layouts written from the Modbus Application Protocol v1.1b3; bit packing is proved against its arithmetic form by direct AST->z3 translation (lemma K3). z3 decides every path; bounded (list lengths per obligation), not a proof.",
    note="Bounds: all 8/16-bit field values; register/bit/record/event list lengths as named per obligation (quick: small shapes; thorough: up to the spec maxima 125/123/121 registers, 2000/1968 bits). Reference layouts in spec/pdu.py are trusted as the reading of the spec. Known findings listed in known_findings.json are carved per class x direction. alias.*: decoded list fields modified in place, same bytes decoded again (real unpack_bitstring): wire values, no shared list.",
    technique=TECH)
CHECKS["C02"] = dict(cat="model_checking", ref="DESIGN.md 4/C02",
    text="Symbolic execution of decode(encode(m)), encode three times, encode(decode(encode(m))) and decode-twice-into-one-object for every class in the decoder tables over all field values of a concrete shape; z3 decides each path. Bounded by list length.",
    note="Same bounds and trusted base as C01; call histories limited to the four compositions named. Purity compares the bytes of repeated encodes and the caller-set fields (fields encode() computes for itself, e.g. MEI paging outputs, are outputs not inputs). noacc2.*: a second decode of a different shape (shorter, longer, empty list) into the same object.",
    technique=TECH)
CHECKS["C03"] = dict(cat="model_checking", ref="DESIGN.md 4/C03",
    text="buildPacket and the whole receive path of all five framers are executed symbolically for every message class: the packet equals the reference ADU (MBAP / unit+PDU+CRC low byte first / ':'+upper hex+LRC+CRLF / bare PDU / '{'..'}') and a fresh framer fed the packet delivers exactly one equal message with unit/tid/pid preserved, for all unit ids, transaction ids and field values. The CRC table code and LRC are proved equal to the standards' definitions by direct AST->z3 translation (K1 step lemma + induction argument, K2).",
    note="computeCRC appears inside framer harnesses as an uninterpreted step function folded over the data (so CONFIRMED holds for any checksum; K1 ties the real one to CRC-16/Modbus); computeLRC as its closed form (K2). PDU conformance itself is C01 (the ADU wraps the library's own PDU). Quick: one shape per class; thorough: all shapes. Binary-framer frames containing delimiter bytes and multi-word diagnostic responses on RTU are listed known findings. The two maximum-size RTU frames (125 / 123 registers) are in the quick tier.",
    technique=TECH)
CHECKS["C04"] = dict(cat="model_checking", ref="DESIGN.md 4/C04",
    text="One symbolic step request-bytes -> ServerDecoder.decode -> execute -> datastore from an arbitrary table state (symbolic block start, length, contents; zero-mode on/off; holding/input tables shared or separate) is compared with a reference register-file model: response PDU and the full post-state of all four tables, for FC 1-6, 15, 16, 22, 23 with all body bytes symbolic. z3 decides each path; histories of any length follow by induction over states of this shape (paper argument).",
    note="Bounds: addressed table 1..4 cells (thorough 1..6), FC15/16/23 with 1-2 data bytes/registers (thorough 3), other three tables fixed decoys. The reference model (spec/regfile.py) is the trusted reading of the spec. Bitwise AND/OR are modelled by per-bit Boolean expansion. samelist.*: four blocks built by the real constructor from one list object stay four stores.",
    technique=TECH)
CHECKS["C05"] = dict(cat="model_checking", ref="DESIGN.md 4/C05",
    text="The same step harness restricted to requests the reference model rejects: exception code in the spec's decision order (03 before 02), fc|0x80, all four tables unchanged; quantity limits decided over the full 16-bit quantity and address range against 2100-cell tables; every unassigned function code 1..127 answered with exception 01.",
    note="Bounds as C04; 'datastore failure -> exception 04' is decided with the server front-ends (C09/C12 harnesses). Three listed known findings carve their exact regions (coil value word, coil quantity vs data, short register data).",
    technique=TECH)
CHECKS["C14"] = dict(cat="model_checking", ref="DESIGN.md 4/C14",
    text="get_response_pdu_size() of every request class is proved equal to its closed form over unbounded integers (AST->z3 Int translation); the client's read sizes are decided by symbolically executing whole client transactions (real transaction manager, framer, decoder) against a scripted transport holding exactly the frame the real server code sends plus a sentinel: the call returns the decoded reply and leaves exactly the sentinel unread, for normal and exception replies, on RTU/ASCII/binary/TLS/TCP.",
    note="Quantities are concrete per obligation (quick 1,2,8,9; thorough adds byte-boundary quantities and the spec maxima); unit id and values symbolic; address is one in-range and one out-of-range value. Scripted transport = environment. TLS exception replies are a listed known finding; binary frames with delimiter bytes are C03's. Multi-word diagnostic loopback included; K4 closed forms over all integers (pysym knows min/max).",
    technique=TECH)
CHECKS["C19"] = dict(cat="model_checking", ref="DESIGN.md 4/C19",
    text="BinaryPayloadBuilder/Decoder are executed symbolically for every value type and sequences of up to three typed values under all four byte-order x word-order combinations: the register image equals the conventional layout (reference word/byte shuffle) and the decoder returns every value, through raw bytes and through to_registers/fromRegisters, for EVERY bit pattern of each value (integers over their full ranges; floats as bit patterns, a superset of all floats).",
    note="IEEE conversion itself is CPython's struct (trusted): floats travel as bit patterns through the two struct calls that touch them. Strings are 3 bytes, bit groups 8 bits, sequences are the type combinations enumerated per obligation. struct.pack of an integer the harness composed from bytes is modelled by the identity to_bytes(from_bytes(b)) == b. text.*: add_string with a str of arbitrary code points (UTF-8 image). bits.alias: decode_bits result modified in place, same byte decoded again.",
    technique=TECH)
CHECKS["C20"] = dict(cat="model_checking", ref="DESIGN.md 4/C20",
    text="The whole Read Device Identification request/response chain (ServerDecoder -> execute -> DeviceInformationFactory -> encode with _encode_object space accounting) is executed symbolically over identity objects of SYMBOLIC length 0..245 and symbolic content: every PDU <= 253 bytes, chain terminates, union of pages = exactly the configured non-empty objects of the category from the start id, each once; response bytes equal header + claimed objects for concrete length vectors incl. boundary lengths; individual access returns exactly the object.",
    note="Populated object-id sets are concrete per obligation (dictionary keys). With symbolic lengths paging is decided on lengths and header fields (byte equality would make the engine enumerate lengths); byte-level consistency is decided for the concrete length vectors listed. A 245-byte object (fits no PDU) is a listed known finding. Client-side decoding is C01's obligation. bytes.*: every page is also decoded by ClientDecoder and compared with the page sent. config.history: identity configured twice through its public interface.",
    technique=TECH)
CHECKS["C06"] = dict(cat="model_checking", ref="DESIGN.md 4/C06",
    text="The receive paths of the TCP, RTU, ASCII and binary framers are executed symbolically on streams of 1-2 valid frames (all field values, unit ids, transaction ids symbolic) under EVERY schedule with 0, 1 or 2 cuts (thorough: 3 cuts and single-byte delivery; empty reads included): callbacks equal the stream's messages in order and nothing escapes processIncomingPacket. z3 decides each path for all frame contents.",
    note="Cut positions are enumerated concretely inside each obligation, contents are symbolic. Frames <= 13 bytes. On the unchanged tree only ASCII reassembles split frames: TCP split frames, RTU/binary split or multiple frames per read are listed known findings (their obligations are kept and reported as such). For TCP, RTU and binary the read schedules are split by a fixed predicate (c06.holds_on_tree) into those the listed chunking findings cover (*.listed, witnesses) and the rest, which are asserted.",
    technique=TECH)
CHECKS["C07"] = dict(cat="model_checking", ref="DESIGN.md 4/C07",
    text="For ANY buffer of the stated length handed to a fresh receiver (all bytes symbolic except the function-code position), every delivered message is the decoder's result for a PDU that a frame in the buffer carries with a valid integrity check (CRC low byte first / LRC over valid hex / consistent MBAP length) and with the delivered unit/transaction ids - decided by z3 over all buffers, which subsumes every corruption, truncation and extension of valid frames. SMT lemmas K5 prove that CRC-16/Modbus detects all 1-3 bit errors and all bursts <= 16 bits and that the LRC detects every single-character change, for frames of the stated size.",
    note="Buffers: RTU 8-9, binary 10, TCP 9/12, ASCII 11/17 bytes in quick (more lengths and function codes in thorough); one read. CRC/LRC appear as contracts (K1/K2 tie them to the standards). The decoder is observed through a recording wrapper. Two listed known findings: TCP headerless error frames, ASCII lenient LRC field. just.<framing>-client.*: framer built with a client object, as the synchronous clients build it; a fixed-format data-access PDU must have its own length.",
    technique=TECH)
CHECKS["C11"] = dict(cat="model_checking", ref="DESIGN.md 4/C11",
    text="Liveness reduced to bounded safety and decided symbolically: from the state an arbitrary garbage chunk (arbitrary bytes, bad-checksum frame, foreign-unit frame, truncated frame, lone delimiters; contents symbolic) leaves in an RTU/ASCII/binary receiver, four valid frames are read one (or two) per read; the 3rd and 4th are delivered as the frame's own message and the backlog stays <= garbage + one frame.",
    note="Garbage <= 8 bytes in one read; receiver = framer + the serial handlers' reset-on-exception rule. With the CRC uninterpreted, checksum-valid windows straddling garbage and valid traffic are assumed away (1 in 65536 per window for the real CRC). ASCII deafness after a rejected complete frame and RTU/binary one-frame-per-read are listed known findings. handler.*: the real serial handler loop; sizebound.*/sizeformula.*: the RTU frame size announced by arbitrary header bytes is bounded (FIFO and device-identification responses: listed finding KF-rtu-announced-size-uncapped).",
    technique=TECH)
CHECKS["C09"] = dict(cat="model_checking", ref="DESIGN.md 4/C09",
    text="The handler loops, execute() and send() of all seven server front-ends (sync TCP/serial/UDP, asyncio TCP/UDP, Twisted TCP/UDP) are executed symbolically on 1-2 well-formed requests with symbolic transaction ids, unit id, addresses, values and initial registers: the bytes written back are exactly one reference response frame per request, in order (reference register-file model wrapped in the reference ADU with the request's ids); nothing is written for broadcast, ignored absent units and listen-only responses; a raising datastore is answered with exception 04.",
    note="Front-ends are driven through fake sockets/transports and a queue-only event loop (no selector, threads or reactor) - these fakes are the environment. Requests are FC 6 / FC 3 / FC 8-04 on a 4-register table; reads are whole frames. Twisted UDP answering listen-only requests is a listed known finding. silent.*.broadcast-fail: a broadcast whose execution raises is still unanswered. subfn.*: diagnostic sub-functions and MEI through the front-ends (response carries the request's function code); nodata-second.*: a bare-function-code request that is not the first frame.",
    technique=TECH)
CHECKS["C10"] = dict(cat="model_checking", ref="DESIGN.md 4/C10",
    text="Every front-end is executed symbolically with two hosted unit contexts whose ids are SYMBOLIC (distinct, 0..247) and a write request addressed to a symbolic unit id 0..255, for each combination of ignore_missing_slaves / broadcast_enable: exactly the addressed unit changes as the reference model prescribes; broadcast is applied once to both units with no response; an absent unit changes nothing and is answered not at all or with a gateway exception; single mode routes every id to the one context.",
    note="Hosted-unit map is a hash-free mapping under the solver so that ids stay symbolic. One FC 6 request per obligation, 4-register tables. Front-ends driven through fakes as in C09.",
    technique=TECH)
CHECKS["C12"] = dict(cat="model_checking", ref="DESIGN.md 4/C12",
    text="ANY byte string of the stated length (all bytes symbolic but the function-code position) is sent to each front-end in one or two reads: no exception leaves the front-end (Twisted: reactor contract), the datastore afterwards is unchanged or exactly what a checksum-valid write frame contained in the input prescribes (C07's recogniser + register-file model), and a probe request on a fresh connection is answered correctly.",
    note="Inputs: TCP 12 bytes, RTU 8, ASCII 17 in quick (more lengths/function codes in thorough). CRC as uninterpreted contract on both receiver and recogniser side. The ASCII lenient-LRC region is a listed known finding. framed.*.fc<k>: every function code of the server decoder table with arbitrary bodies (dictionary-dispatched bytes fixed per obligation); truncated RTU requests; a path that does not return is ended by a CPU budget and reported only if the concrete replay does not return either. sameport.*: on the one-connection serial front-end later requests on the same port are answered.",
    technique=TECH)
CHECKS["C17"] = dict(cat="model_checking", ref="DESIGN.md 4/C17",
    text="Differential symbolic model checking: the synchronous, asyncio and Twisted front-ends (stream trio and datagram trio) are run on the SAME symbolic request bytes (1-2 requests of a given function code, every body byte, ids and the initial coils/registers symbolic; valid and invalid requests alike) on copies of the same datastore: outputs byte-identical, final datastores identical, same decision to give the connection up. Interleaving obligation: two connections with reads a1, b, a2 (a split ASCII frame) get exactly the output they get alone - framing state is per connection.",
    note="No reference model is needed (the front-ends are each other's oracle), so any request body is in scope. Only features all front-ends support (no broadcast). Sync interleaving is emulated at recv() boundaries. Twisted UDP's shared, never-reset framer is a listed known finding. idle-timeout.*: recv() time-outs on the synchronous stream handler before/between requests (and around a split ASCII frame) change nothing. peers.*: two datagram peers, back-to-back delivery, replies checked per destination; MEI requests in the quick differentials (type 14, any read code, object ids 0..8).",
    technique=TECH)
CHECKS["C08"] = dict(cat="model_checking", ref="DESIGN.md 4/C08",
    text="A whole synchronous client transaction (BaseModbusClient.execute, ModbusTransactionManager.execute/_transact/_recv, framer receive path, ClientDecoder) is executed symbolically from a SYMBOLIC transaction-id counter against ANY reply bytes of the stated length: whatever is returned is an error object or a response decoded from a checksum-valid frame in the received bytes that carries the request's transaction id (TCP) / unit id (serial) and the request's function code or that code | 0x80; stale valid frames before the right reply are covered too. The 'well-formed reply is returned decoded' clause is decided by C14's exact.* obligations.",
    note="One transaction per obligation, retries 0, scripted transport = environment; reply lengths: one-register read reply (+1 in thorough), function-code byte enumerated. The client accepting replies with a foreign transaction id / function code is a listed known finding, carved by exactly that predicate. history.*: three healthy transactions in one process (two clients) each return exactly their own reply's values.",
    technique=TECH)
CHECKS["C13"] = dict(cat="model_checking", ref="DESIGN.md 4/C13",
    text="The client transaction loop (retry loop, _transact error handling, framer reset, _recv) is executed symbolically with a SYMBOLIC choice of transport behaviour per attempt (full reply, exception reply, nothing, half a reply, symbolic garbage, other-unit frame, stale reply, OSError): the call returns an error object or a response without raising, transmits at most 1+retries times, and a following healthy transaction returns its own correct reply; the documented retry options are checked on two-attempt scripts; the TCP client's deadline loop terminates under a symbolic clock that advances at least timeout/4 per observation.",
    note="Scripts of 1+retries attempts, retries 0..1 quick (0..2 thorough); scripted transport and clock are the environment; time.sleep no-op. RTU/binary: garbage and half frames assumed not checksum-valid under the uninterpreted CRC. Two listed known findings: exceptions escaping execute() on garbage (ASCII/binary), retry_on_empty alone never retries. peerclose.*: a connection the peer closed after k reply bytes (k symbolic) stays dead until the client closes it; a close after the header (k >= 8 on TCP) is the listed finding KF-client-keeps-dead-connection-after-truncated-reply. realtcp.*/realserial.*: the real ModbusTcpClient / ModbusSerialClient over a fake socket / port (garbage replies, stale bytes before a request). The known-finding carve for exceptions escaping execute() is by call site (framer.processIncomingPacket / decode_data). realudp.late-reply: the real ModbusUdpClient over fake datagram sockets.",
    technique=TECH)
CHECKS["C15"] = dict(cat="other", ref="DESIGN.md 4/C15",
    text="Thread schedules cannot be explored by this family of technique. The property is reduced to a lock-discipline premise that IS decided symbolically on the real code: under symbolic transport faults (incl. exceptions) every access to the shared transaction state (transport send/recv/connect/close, framer buffer, transaction-id counter, reply slots) happens while one and the same lock reachable from the client is owned, all accesses of one execute() call lie in ONE critical section of that lock (a section-counting proxy around the lock: not released and re-taken between two accesses, e.g. around the retry back-off), and no lock is owned after execute() returns or raises. Lock discipline + release on every exit implies serialisability of whole transactions (stated reduction); serial behaviour is C08/C13/C14.",
    note="Not an exploration of interleavings: a race in code that bypasses the monitored accesses would be missed. If a reduction is not accepted as deciding a schedule property, C15 is not applicable to this technique family for that reason. Trusts CPython's RLock. Environment model of contention (part of the claim): the first lock acquire that is allowed to give up (non-blocking or timed) gives up, blocking acquires succeed. Calls enter through BaseModbusClient.execute from a symbolic client.state; the connect() that method makes before the lock is the listed finding KF-connect-outside-transaction-lock (prelock-connect.tcp) and is excluded from lock.* by call site.",
    technique="lock-discipline premise checked by bounded symbolic execution (CrossHair + z3) of the real transaction code; schedule quantifier by a stated reduction")
CHECKS["C16"] = dict(cat="model_checking", ref="DESIGN.md 4/C16",
    text="The Twisted ModbusClientProtocol is executed symbolically from a SYMBOLIC transaction-id counter (wrap at 0xFFFF included): three outstanding requests get distinct 16-bit ids, every arrival order of the replies fires each deferred exactly once with its own reply, an unsolicited reply (symbolic foreign id) and a duplicate change nothing; connection loss at every point fails exactly the pending deferreds with ConnectionException and later requests fail likewise; an inductive step from an arbitrary pending set (symbolic ids) decides id reuse; the serial FIFO variant matches replies in order.",
    note="Three outstanding requests, all 6 orders in thorough (3 in quick); pending map is a hash-free mapping under the solver; transport is a recording fake, one reply per dataReceived. Overwriting a still-pending request when the counter comes round is a listed known finding (carved by exactly that predicate). lost.rtu.*: connection loss on the serial (FIFO) variant; fresh-protocol.rtu: a second default-built serial protocol object.",
    technique=TECH)
NA_REASON = "check not built yet in this revision (work in progress; see DESIGN.md build order)"

def main():
    props = [json.loads(l)["id"] for l in open(os.path.join(ROOT, "properties.jsonl")) if l.strip()]
    checks = []
    for pid in props:
        if pid not in CHECKS:
            continue
        c = CHECKS[pid]
        checks.append({
            "property_id": pid,
            "quick_cmd": "./check %s quick" % pid,
            "thorough_cmd": "./check %s thorough" % pid,
            "evidence_file": "/verif/evidence/%s.json" % pid,
            "replay_cmd_template": "./check %s --replay {path}" % pid,
            "engine": c.get("engine", "crosshair+pysym"),
            "level_claimed": {"category": c["cat"], "text": c["text"], "design_ref": c["ref"]},
            "level_note": c["note"],
            "technique": c["technique"],
        })
    na = [{"property_id": p, "reason": NA.get(p, NA_REASON)} for p in props if p not in CHECKS]
    m = {
        "version": 1,
        "setup_cmd": "./engine/bootstrap.sh",
        "hooks": {"guard": "PYMODBUS_VERIF", "enable": "no source hooks: stubs are injected through CrossHair's patch registry at analysis time",
                  "baseline_off_cmd": "cd /repo && /venv/bin/python -m pytest -ra -q -p no:cacheprovider --timeout=900 --continue-on-collection-errors",
                  "source_commits": [], "add_only": True},
        "engines": [
            {"name": "crosshair+pysym", "path": "/verif/engine", "serves_properties": [c["property_id"] for c in checks],
             "kind_free_text": "Engine A: CrossHair 0.0.110 symbolic execution of the real modules with a pymodbus plugin (engine/chplugin.py, chmodels.py); Engine B: pysym, AST->z3 translation of leaf kernels; runner with reachability twins, concrete replay, known-finding witnesses"},
        ],
        "checks": checks,
        "not_applicable": na,
        "notes": "All checks: ./check <ID> <quick|thorough>; exit 0 ok, 1 VIOLATION (replayed on the real code), 2 harness error (never a violation). Known findings: /verif/known_findings.json.",
    }
    with open(os.path.join(ROOT, "MANIFEST.json"), "w") as f:
        json.dump(m, f, indent=1)
NA = {}
if __name__ == "__main__":
    main()
