"""CPython models and kernel contracts for the CrossHair plugin (see chplugin.py).

Models (exact, branch-light z3 encodings of C builtins CrossHair would otherwise concretise):
  binascii.b2a_hex / hexlify, binascii.a2b_hex / unhexlify, int(<bytes of length <= 2>, 16),
  `|`, `^`, `&` on symbolic ints known to lie in [0, 2**W) via Int2BV/BV2Int.
Each model is validated against the CPython function on its small domain by validate_models().

Contracts (over-approximations of leaf kernels justified by Engine-B lemmas):
  crc : computeCRC(data) == swap16(fold(stepU, 0xFFFF, data)) with stepU an UNINTERPRETED function
        Int x Int -> [0, 65535]  (K1 proves the real loop body is a total function 16-bit x 8-bit -> 16-bit;
        anything CONFIRMED with the uninterpreted step holds for the real step).
  lrc : computeLRC(data) == (-sum(data)) mod 256                      (K2)
  bits: pack_bitstring / unpack_bitstring == LSB-first arithmetic form (K3)
"""
import binascii

import z3
from crosshair.core import _PATCH_REGISTRATIONS, realize, deep_realize
from crosshair.libimpl import builtinslib as _bl
from crosshair.libimpl.builtinslib import SymbolicBool, SymbolicBytes, SymbolicInt
from crosshair.statespace import context_statespace
from crosshair.tracers import NoTracing, ResumedTracing



def _z(x):
    """z3 Int term for a (possibly symbolic) int/bool; None if not int-like. Call under NoTracing."""
    if isinstance(x, SymbolicInt):
        return x.var
    if isinstance(x, SymbolicBool):
        return z3.If(x.var, z3.IntVal(1), z3.IntVal(0))
    if isinstance(x, bool):
        return z3.IntVal(1 if x else 0)
    if isinstance(x, int):
        return z3.IntVal(x)
    return None


def _zb(x):
    """z3 Bool term for the truthiness of a bit-like value. Call under NoTracing."""
    if isinstance(x, SymbolicBool):
        return x.var
    if isinstance(x, SymbolicInt):
        return x.var != 0
    if isinstance(x, (bool, int)):
        return z3.BoolVal(bool(x))
    return None


def _is_sym(x):
    return isinstance(x, _bl.CrossHairValue)


def _elements(data):
    """List of per-byte values (ints or SymbolicInts) of a bytes-like with concrete length; under tracing."""
    return [data[i] for i in range(len(data))]


# --------------------------------------------------------------------------- binascii
def _hexchar(zv):
    # nibble 0..15 -> lowercase ascii code
    return zv + z3.If(zv >= 10, z3.IntVal(87), z3.IntVal(48))


def _hexchar_up(zv):
    return zv + z3.If(zv >= 10, z3.IntVal(55), z3.IntVal(48))


# Remember which z3 terms are "hex character of nibble n" so that upper() and the hex decoders can use the
# identities upper(hexchar(n)) == HEXCHAR(n) and hexval(hexchar(n)) == n (0 <= n <= 15; checked exhaustively in
# validate_models) instead of leaving nested If-terms to the solver.
_HEXTERM = {"space": None, "memo": {}}


def _remember_hexchar(space, term, nib, upper):
    if _HEXTERM["space"] is not space:
        _HEXTERM["space"] = space
        _HEXTERM["memo"] = {}
    _HEXTERM["memo"][term.get_id()] = (term, nib, upper)


def _lookup_hexchar(space, term):
    if _HEXTERM["space"] is not space:
        return None
    hit = _HEXTERM["memo"].get(term.get_id())
    if hit is not None and z3.eq(hit[0], term):
        return hit
    return None


def hexchar_sym(space, nib, upper=False):
    t = _hexchar_up(nib) if upper else _hexchar(nib)
    _remember_hexchar(space, t, nib, upper)
    return SymbolicInt(t)


_orig_swap = _bl.BytesLike._ch_swap_ascii_case


def _swap_ascii_case(self, byte, do_lower, do_upper):
    if do_upper and not do_lower:
        with NoTracing():
            if isinstance(byte, SymbolicInt):
                space = context_statespace()
                hit = _lookup_hexchar(space, byte.var)
                if hit is not None:
                    return byte if hit[2] else hexchar_sym(space, hit[1], True)
    return _orig_swap(self, byte, do_lower, do_upper)


_NIB = {"space": None, "memo": {}}


def nibbles(space, ze):
    """fresh Int variables (hi, lo) with ze == 16*hi + lo, 0 <= hi, lo <= 15 (unique for a byte); memoised per path.
    Avoids div/mod terms in the hex codecs."""
    if _NIB["space"] is not space:
        _NIB["space"] = space
        _NIB["memo"] = {}
    memo = _NIB["memo"]
    hit = memo.get(ze.get_id())
    if hit is not None and z3.eq(hit[0], ze):
        return hit[1], hit[2]
    n = len(memo)
    hi, lo = z3.Int("nibhi_%d" % n), z3.Int("niblo_%d" % n)
    space.add(z3.And(hi >= 0, hi <= 15, lo >= 0, lo <= 15, ze == 16 * hi + lo))
    memo[ze.get_id()] = (ze, hi, lo)
    return hi, lo


def _b2a_hex(data, *a, **kw):
    if a or kw:
        return binascii.b2a_hex(deep_realize(data), *a, **kw)
    elems = _elements(data)
    with NoTracing():
        if not any(_is_sym(e) for e in elems):
            return binascii.b2a_hex(bytes(elems))
        out = []
        space = context_statespace()
        for e in elems:
            if _is_sym(e):
                hi, lo = nibbles(space, _z(e))
                out.append(hexchar_sym(space, hi))
                out.append(hexchar_sym(space, lo))
            else:
                out.extend(binascii.b2a_hex(bytes([e])))
        return SymbolicBytes(out)


def _hexval(zc):
    return z3.If(zc <= 57, zc - 48, z3.If(zc <= 70, zc - 55, zc - 87))


def _ishex(zc):
    return z3.Or(z3.And(zc >= 48, zc <= 57), z3.And(zc >= 65, zc <= 70), z3.And(zc >= 97, zc <= 102))


def _a2b_hex(data):
    if isinstance(data, str):
        data = data.encode("ascii")
    elems = _elements(data)
    with NoTracing():
        if not any(_is_sym(e) for e in elems):
            return binascii.a2b_hex(bytes(elems))
        if len(elems) % 2:
            raise binascii.Error("Odd-length string")
        zs = [_z(e) for e in elems]
        space = context_statespace()
        hits = [_lookup_hexchar(space, c) for c in zs]
        unknown = [c for c, h in zip(zs, hits) if h is None]
        allhex = z3.And(*[_ishex(c) for c in unknown]) if unknown else z3.BoolVal(True)
        if unknown and not space.smt_fork(allhex, probability_true=0.9):
            raise binascii.Error("Non-hexadecimal digit found")
        vals = [h[1] if h is not None else _hexval(c) for c, h in zip(zs, hits)]
        out = [SymbolicInt(vals[i] * 16 + vals[i + 1]) for i in range(0, len(vals), 2)]
        return SymbolicBytes(out)


_SPECIAL = (9, 10, 11, 12, 13, 32, 43, 45, 95)   # whitespace, + - _  (the only non-digit bytes int() tolerates)


def _isws(zc):
    return z3.Or(z3.And(zc >= 9, zc <= 13), zc == 32)


def _int(*a, **kw):
    """int(<bytes>, 16) for short byte strings with symbolic content; everything else -> stock model."""
    if len(a) >= 1 and type(a[0]) is str:
        from engine.chplugin import semantic_text
        a = (semantic_text(a[0]),) + tuple(a[1:])
    if len(a) == 2 and not kw:
        val, base = a
        with NoTracing():
            is_bytes = isinstance(val, SymbolicBytes) or (isinstance(val, (bytes, bytearray)))
            base16 = (not _is_sym(base)) and base == 16
        if is_bytes and base16:
            n = len(val)
            if n <= 2:
                elems = _elements(val)
                with NoTracing():
                    if any(_is_sym(e) for e in elems):
                        zs = [_z(e) for e in elems]
                        space = context_statespace()
                        hits = [_lookup_hexchar(space, c) for c in zs]
                        if all(h is not None for h in hits):
                            v = z3.IntVal(0)
                            for h in hits:
                                v = v * 16 + h[1]
                            return SymbolicInt(v)
                        allhex = z3.And(*[_ishex(c) for c in zs])
                        if space.smt_fork(allhex, probability_true=0.9):
                            v = z3.IntVal(0)
                            for c in zs:
                                v = v * 16 + _hexval(c)
                            return SymbolicInt(v)
                        # forms int() tolerates around ONE hex digit in a 2-byte string: ws+digit, digit+ws, '+'/'-' + digit
                        if len(zs) == 2:
                            c0, c1 = zs
                            ws0, ws1 = _isws(c0), _isws(c1)
                            form = z3.Or(z3.And(ws0, _ishex(c1)), z3.And(_ishex(c0), ws1),
                                         z3.And(z3.Or(c0 == 43, c0 == 45), _ishex(c1)))
                            if space.smt_fork(form, probability_true=0.1):
                                val = z3.If(_ishex(c1), z3.If(c0 == 45, -_hexval(c1), _hexval(c1)), _hexval(c0))
                                return SymbolicInt(val)
                        raise ValueError("invalid literal for int() with base 16")
    return int(*a, **kw)          # next patch layer: CrossHair's own int model


# --------------------------------------------------------------------------- bitwise ops on bounded ints
import operator as ops

BV_W = 16


def _bounded(space, za, zb, w):
    lim = z3.IntVal(2 ** w)
    return space.smt_fork(z3.And(za >= 0, za < lim, zb >= 0, zb < lim), probability_true=0.95)


_DEC = {"space": None, "memo": {}}


def decompose_n(space, ze, nbits):
    """nbits fresh Bools with ze == sum(b_k * 2**k) (binary expansion, unique for 0 <= ze < 2**nbits); per-path memo."""
    if z3.is_int_value(ze):
        v = ze.as_long()
        return [z3.BoolVal(bool((v >> k) & 1)) for k in range(nbits)]
    if space is None:
        raise ValueError("symbolic term without a state space")
    if _DEC["space"] is not space:
        _DEC["space"] = space
        _DEC["memo"] = {}
    memo = _DEC["memo"]
    key = (ze.get_id(), nbits)
    hit = memo.get(key)
    if hit is not None and z3.eq(hit[0], ze):
        return hit[1]
    # canonical form: two syntactically different spellings of the same polynomial (e.g. struct.unpack's
    # and the harness's b[i]*256+b[i+1]) share one expansion
    ze = z3.simplify(ze)
    key = (ze.get_id(), nbits)
    hit = memo.get(key)
    if hit is not None and z3.eq(hit[0], ze):
        return hit[1]
    n = len(memo)
    bits = [z3.Bool("bw_%d_%d" % (n, k)) for k in range(nbits)]
    space.add(ze == z3.Sum([z3.If(b, z3.IntVal(1 << k), z3.IntVal(0)) for k, b in enumerate(bits)]))
    memo[key] = (ze, bits)
    return bits


def _from_bits(space, bits):
    """Int term sum(b_k 2^k); remembered so that later bit operations on it reuse the Boolean b_k directly"""
    r = z3.Sum([z3.If(c, z3.IntVal(1 << k), z3.IntVal(0)) for k, c in enumerate(bits)])
    if space is not None:
        if _DEC["space"] is not space:
            _DEC["space"] = space
            _DEC["memo"] = {}
        _DEC["memo"][(r.get_id(), len(bits))] = (r, list(bits))
    return r


def _bitwise(space, op, za, zb, w, negate_b=False):
    xa, xb = decompose_n(space, za, w), decompose_n(space, zb, w)
    if negate_b:
        xb = [z3.Not(t) for t in xb]
    bits = []
    for k in range(w):
        if op is ops.and_:
            bits.append(z3.And(xa[k], xb[k]))
        elif op is ops.or_:
            bits.append(z3.Or(xa[k], xb[k]))
        else:
            bits.append(z3.Xor(xa[k], xb[k]))
    return _from_bits(space, bits)


def bitnot16(a):
    with NoTracing():
        za = _z(a)
        if z3.is_int_value(za):
            return 65535 - za.as_long()
        space = context_statespace()
        return SymbolicInt(_from_bits(space, [z3.Not(t) for t in decompose_n(space, za, 16)]))


def _bv_binop(op, a, b):
    with NoTracing():
        za, zb = _z(a), _z(b)
        if za is None or zb is None:
            return NotImplemented
        space = context_statespace()
        for w in (BV_W, 32):
            if _bounded(space, za, zb, w):
                return SymbolicInt(_bitwise(space, op, za, zb, w))
        if op is ops.and_:
            # x & ~c == x - (x & c) for x, c >= 0  (Python's ~c is -c-1): masks written as `& ~mask`
            for w in (BV_W, 32):
                lim = z3.IntVal(2 ** w)
                if space.smt_fork(z3.And(za >= 0, za < lim, zb < 0, zb >= -lim), probability_true=0.9):
                    return SymbolicInt(_bitwise(space, op, za, z3.simplify(-zb - 1), w, negate_b=True))
                if space.smt_fork(z3.And(zb >= 0, zb < lim, za < 0, za >= -lim), probability_true=0.9):
                    return SymbolicInt(_bitwise(space, op, zb, z3.simplify(-za - 1), w, negate_b=True))
        return op(realize(a), realize(b))


def _install_bitops():
    from numbers import Integral
    for a_t, b_t in ((SymbolicInt, SymbolicInt), (SymbolicInt, int), (int, SymbolicInt)):
        for op in (ops.or_, ops.xor):
            _bl._BIN_OPS_SEARCH_ORDER.append((op, a_t, b_t, _bv_binop))
    # `&`: keep CrossHair's mod-encoding for 2**k-1 masks; BV only when both sides are symbolic
    _bl._BIN_OPS_SEARCH_ORDER.append((ops.and_, SymbolicInt, SymbolicInt, _bv_binop))
    _bl._BIN_OPS.clear()


# --------------------------------------------------------------------------- contracts
_STEP = None


def _step_fn():
    global _STEP
    if _STEP is None:
        _STEP = z3.Function("crc_stepU", z3.IntSort(), z3.IntSort(), z3.IntSort())
    return _STEP


def hexpair(c0, c1):
    with NoTracing():
        z0, z1 = _z(c0), _z(c1)
        space = context_statespace()
        vals = []
        for zc in (z0, z1):
            hit = _lookup_hexchar(space, zc)
            vals.append(hit[1] if hit is not None else _hexval(zc))
        ok = z3.And(_ishex(z0), _ishex(z1))
        return SymbolicBool(ok), SymbolicInt(vals[0] * 16 + vals[1])


def is_hex(c):
    with NoTracing():
        zc = _z(c)
        if z3.is_int_value(zc):
            return chr(zc.as_long()) in "0123456789abcdefABCDEF"
        return SymbolicBool(_ishex(zc))


_SPLIT = {"space": None, "memo": {}}


def _split16_z(space, zx):
    """z3 terms (lo, hi) with zx == 256*hi + lo, 0 <= lo, hi <= 255: fresh per-path variables, memoised (call under NoTracing)"""
    if _SPLIT["space"] is not space:
        _SPLIT["space"] = space
        _SPLIT["memo"] = {}
    memo = _SPLIT["memo"]
    hit = memo.get(zx.get_id())
    if hit is not None and z3.eq(hit[0], zx):
        return hit[1], hit[2]
    n = len(memo)
    lo, hi = z3.Int("crclo_%d" % n), z3.Int("crchi_%d" % n)
    space.add(z3.And(lo >= 0, lo <= 255, hi >= 0, hi <= 255, zx == 256 * hi + lo))
    memo[zx.get_id()] = (zx, lo, hi)
    return lo, hi


def split16(x):
    """(lo, hi) bytes of a 16-bit value without div/mod terms"""
    with NoTracing():
        zx = _z(x)
        if z3.is_int_value(zx):
            v = zx.as_long()
            return v % 256, v // 256
        lo, hi = _split16_z(context_statespace(), zx)
        return SymbolicInt(lo), SymbolicInt(hi)


def lnot(x):
    with NoTracing():
        if isinstance(x, SymbolicBool):
            return SymbolicBool(z3.Not(x.var))
        if isinstance(x, SymbolicInt):
            return SymbolicBool(x.var == 0)
    return not x


def crc_fold_all(stream, i):
    """[crc16(stream[i:j]) for j in i..len]: same representation as the computeCRC contract / crc_fold (real value
    while the slice is fully concrete, otherwise the uninterpreted step folded from the start of the slice)"""
    elems = _elements(stream)
    with NoTracing():
        from spec.checksums import crc16_modbus
        space = context_statespace()
        f = _step_fn()
        out = []
        st = z3.IntVal(0xFFFF)
        all_conc = True
        for j in range(i, len(elems) + 1):
            if j > i:
                e = elems[j - 1]
                if _is_sym(e):
                    all_conc = False
                st = f(st, _z(e))
                if not all_conc:
                    space.add(z3.And(st >= 0, st <= 65535))
            out.append(crc16_modbus(bytes(elems[i:j])) if all_conc else SymbolicInt(st))
        return out


def crc_fold(data):
    """un-swapped CRC register after folding the uninterpreted step over data (harness-side reference)"""
    elems = _elements(data)
    with NoTracing():
        if not any(_is_sym(e) for e in elems):
            from spec.checksums import crc16_modbus
            return crc16_modbus(bytes(elems))
        if EXACT_CRC["on"]:
            return SymbolicInt(_crc_exact_z([_z(e) for e in elems]))
        space = context_statespace()
        f = _step_fn()
        st = z3.IntVal(0xFFFF)
        for e in elems:
            st = f(st, _z(e))
            space.add(z3.And(st >= 0, st <= 65535))
        return SymbolicInt(st)


def hex2_upper(v):
    with NoTracing():
        if not _is_sym(v):
            return b"%02X" % v
        space = context_statespace()
        hi, lo = nibbles(space, _z(v))
        return SymbolicBytes([hexchar_sym(space, hi, True), hexchar_sym(space, lo, True)])


def _make_crc_contract(real):
    def computeCRC(data):
        elems = _elements(data)
        with NoTracing():
            if not any(_is_sym(e) for e in elems):
                return real(bytes(elems))
            space = context_statespace()
            f = _step_fn()
            st = z3.IntVal(0xFFFF)
            for e in elems:
                st = f(st, _z(e))
                space.add(z3.And(st >= 0, st <= 65535))
            lo, hi = _split16_z(space, st)
            return SymbolicInt(lo * 256 + hi)
    return computeCRC


def _crc_exact_z(zs):
    """CRC-16/Modbus register (un-swapped) of byte terms zs as a z3 Int term via 16-bit bit-vector steps
    (the bit-serial definition K1 proves the real loop equal to); exact, for short inputs"""
    from spec.checksums import z3_crc_step
    st = z3.BitVecVal(0xFFFF, 16)
    for zb in zs:
        st = z3_crc_step(st, z3.ZeroExt(8, z3.Int2BV(zb, 8)), 16)
    return z3.BV2Int(st, False)


def _make_crc_exact_contract(real):
    def computeCRC(data):
        elems = _elements(data)
        with NoTracing():
            if not any(_is_sym(e) for e in elems):
                return real(bytes(elems))
            st = _crc_exact_z([_z(e) for e in elems])
            space = context_statespace()
            lo, hi = _split16_z(space, st)
            return SymbolicInt(lo * 256 + hi)
    return computeCRC


EXACT_CRC = {"on": False}


def _make_lrc_contract(real):
    def computeLRC(data):
        elems = _elements(data)
        with NoTracing():
            if not any(_is_sym(e) for e in elems):
                return real(bytes(elems))
            s = z3.IntVal(0)
            for e in elems:
                s = s + _z(e)
            return SymbolicInt((-s) % 256)
    return computeLRC


def _make_pack_contract(real):
    def pack_bitstring(bits):
        bits = list(bits)
        with NoTracing():
            if not any(_is_sym(b) for b in bits):
                return real(bits)
            zb = []
            for b in bits:
                t = _zb(b)
                if t is None:
                    t = z3.BoolVal(bool(realize(b)))
                zb.append(t)
            out = []
            for j in range(0, len(zb), 8):
                v = z3.IntVal(0)
                for k, t in enumerate(zb[j:j + 8]):
                    v = v + z3.If(t, z3.IntVal(1 << k), z3.IntVal(0))
                out.append(SymbolicInt(v))
            return SymbolicBytes(out)
    return pack_bitstring


_DECOMP = {"space": None, "memo": {}}


def decompose(space, ze):
    """8 fresh Bool variables b_k with the defining constraint ze == sum(b_k * 2**k) (binary expansion of a byte,
    unique for 0 <= ze <= 255). Memoised per path so that every user of the same byte term shares the same bits.
    Variable names are numbered per path in creation order (deterministic across CrossHair's path replays)."""
    if _DECOMP["space"] is not space:
        _DECOMP["space"] = space
        _DECOMP["memo"] = {}
    memo = _DECOMP["memo"]
    key = ze.get_id()
    hit = memo.get(key)
    if hit is not None and z3.eq(hit[0], ze):
        return hit[1]
    n = len(memo)
    bits = [z3.Bool("bitx_%d_%d" % (n, k)) for k in range(8)]
    total = z3.Sum([z3.If(b, z3.IntVal(1 << k), z3.IntVal(0)) for k, b in enumerate(bits)])
    space.add(ze == total)
    memo[key] = (ze, bits)
    return bits


def bit_of(byte, k):
    """bit k of a byte value (harness-side helper; symbolic bytes use the shared binary expansion)."""
    with NoTracing():
        if isinstance(byte, SymbolicInt):
            return SymbolicBool(decompose(context_statespace(), byte.var)[k])
    return (byte >> k) & 1 == 1


def ref_pack_bits(bits):
    bits = list(bits)
    with NoTracing():
        zb = []
        for b in bits:
            t = _zb(b)
            if t is None:
                raise TypeError("bit value")
            zb.append(t)
        out = []
        for j in range(0, len(zb), 8):
            v = z3.IntVal(0)
            for k, t in enumerate(zb[j:j + 8]):
                v = v + z3.If(t, z3.IntVal(1 << k), z3.IntVal(0))
            out.append(SymbolicInt(v))
        return SymbolicBytes(out)


def bv16(a, b, op):
    with NoTracing():
        za, zb = _z(a), _z(b)
        if z3.is_int_value(za) and z3.is_int_value(zb):
            x, y = za.as_long(), zb.as_long()
            return (x & y) if op == "and" else (x | y)
        return SymbolicInt(_bitwise(context_statespace(), ops.and_ if op == "and" else ops.or_, za, zb, 16))


def _make_unpack_contract(real):
    def unpack_bitstring(string):
        elems = _elements(string)
        with NoTracing():
            if not any(_is_sym(e) for e in elems):
                return real(bytes(elems))
            space = context_statespace()
            bits = []
            for e in elems:
                if _is_sym(e):
                    bits.extend(SymbolicBool(t) for t in decompose(space, _z(e)))
                else:
                    bits.extend(((e >> k) & 1) == 1 for k in range(8))
            return bits
    return unpack_bitstring


_COMPOSED = {"space": None, "memo": {}}


def compose_be(raw, signed):
    """int value of big-endian bytes `raw` (two's complement if signed); the composition is remembered so that
    struct.pack of the very same term can return the bytes it was made from (no div/mod terms)."""
    elems = _elements(raw)
    with NoTracing():
        if not any(_is_sym(e) for e in elems):
            return int.from_bytes(bytes(elems), "big", signed=signed)
        space = context_statespace()
        zs = [_z(e) for e in elems]
        total = z3.IntVal(0)
        for zb in zs:
            total = total * 256 + zb
        if signed:
            total = z3.If(zs[0] >= 128, total - (1 << (8 * len(zs))), total)
        if _COMPOSED["space"] is not space:
            _COMPOSED["space"] = space
            _COMPOSED["memo"] = {}
        _COMPOSED["memo"][total.get_id()] = (total, list(elems), signed)
        return SymbolicInt(total)


_INT_FORMATS = {"B": (1, False), "b": (1, True), "H": (2, False), "h": (2, True), "I": (4, False), "i": (4, True),
                "L": (4, False), "l": (4, True), "Q": (8, False), "q": (8, True)}


def _struct_pack(fmt, *args):
    """struct.pack layer: (1) '<N>s' of a bytes value is the value itself (padded / cut to N);
    (2) a big-endian integer format applied to a remembered composition returns the bytes it was composed from;
    everything else -> CrossHair's struct.pack model."""
    import struct
    import re
    from engine.chplugin import semantic_text
    fmt = semantic_text(fmt)
    with NoTracing():
        concrete_fmt = isinstance(fmt, str)
    if concrete_fmt and len(args) == 1:
        m = re.match(r"^[<>!=@]?(\d*)s$", fmt)
        if m:
            n = int(m.group(1) or "1")
            v = args[0]
            if len(v) == n:
                return v if not isinstance(v, bytearray) else bytes(v)
            if len(v) > n:
                return v[:n]
            return v + bytes(n - len(v))
        if len(fmt) == 2 and fmt[0] in "!>" and fmt[1] in _INT_FORMATS:
            with NoTracing():
                hit = None
                if isinstance(args[0], SymbolicInt) and _COMPOSED["space"] is context_statespace():
                    h = _COMPOSED["memo"].get(args[0].var.get_id())
                    if h is not None and z3.eq(h[0], args[0].var):
                        w, sg = _INT_FORMATS[fmt[1]]
                        if len(h[1]) == w and h[2] == sg:
                            hit = SymbolicBytes(list(h[1]))
            if hit is not None:
                return hit
    return struct.pack(fmt, *args)


def _struct_unpack(fmt, data):
    """struct.unpack layer: CPython raises struct.error unless the buffer has exactly calcsize(fmt) bytes; that check is
    made here explicitly (the buffer length is concrete or one fork), then CrossHair's model does the conversion"""
    import struct
    from engine.chplugin import semantic_text
    fmt = semantic_text(fmt)
    with NoTracing():
        concrete_fmt = isinstance(fmt, str)
    if concrete_fmt:
        need = struct.calcsize(fmt)
        if len(data) != need:
            raise struct.error("unpack requires a buffer of %d bytes" % need)
    return struct.unpack(fmt, data)


def _struct_unpack_from(fmt, buffer, offset=0):
    """struct.unpack_from: CPython needs at least calcsize(fmt) bytes behind offset and ignores what follows; expressed
    through struct.unpack of the exact slice (the C function itself does not take the engine's symbolic bytes)"""
    import struct
    from engine.chplugin import semantic_text
    fmt = semantic_text(fmt)
    need = struct.calcsize(fmt)
    if offset < 0:
        offset = len(buffer) + offset
    if offset < 0 or len(buffer) - offset < need:
        raise struct.error("unpack_from requires a buffer of at least %d bytes" % (need + max(offset, 0)))
    return struct.unpack(fmt, buffer[offset:offset + need])


def _struct_pack_method(self, *args):
    """struct.Struct(fmt).pack(*args) (six.int2byte is Struct('>B').pack): route through CrossHair's struct.pack model."""
    import struct
    return struct.pack(self.format, *args)


def install(INSTALLED, contracts=()):
    from engine.chplugin import EXTRA_LAYER as _PATCH_REGISTRATIONS  # our own layer (see chplugin._install_layer)
    _PATCH_REGISTRATIONS[binascii.b2a_hex] = _b2a_hex
    _PATCH_REGISTRATIONS[binascii.hexlify] = _b2a_hex
    _PATCH_REGISTRATIONS[binascii.a2b_hex] = _a2b_hex
    _PATCH_REGISTRATIONS[binascii.unhexlify] = _a2b_hex
    INSTALLED["models"].append("binascii.b2a_hex/hexlify, a2b_hex/unhexlify: per-nibble z3 If encodings (one fork on 'all digits valid')")
    _PATCH_REGISTRATIONS[int] = _int

    def _bytes_bool(self):
        # Python 3.12 falls back to __len__ for the truthiness of CrossHair's symbolic bytes, which concretises the
        # length; emptiness is all that truthiness needs (one fork)
        if len(self) != 0:          # the interpreter's truth test on a symbolic bool forks the path
            return True
        return False
    _bl.BytesLike.__bool__ = _bytes_bool
    INSTALLED["models"].append("truthiness of symbolic bytes: fork on emptiness only (instead of concretising the length)")
    _bl.BytesLike._ch_swap_ascii_case = _swap_ascii_case
    INSTALLED["models"].append("hex characters produced by the hex models are remembered per path: upper(hexchar(n)) = HEXCHAR(n), hexval(hexchar(n)) = n (identities checked exhaustively for n in 0..15)")
    INSTALLED["models"].append("int(<=2 symbolic bytes, 16): exact model incl. the forms int() tolerates (whitespace before/after one digit, sign + digit); validated against int() on all 65792 one- and two-byte strings")
    import struct
    _PATCH_REGISTRATIONS[struct.pack] = _struct_pack
    INSTALLED["models"].append("struct.pack('<N>s', bytes) = the bytes (padded/cut to N); struct.pack of a big-endian integer format applied to an int the harness composed from bytes returns those bytes (identity int.to_bytes(int.from_bytes(b)) == b)")
    _PATCH_REGISTRATIONS[struct.unpack_from] = _struct_unpack_from
    INSTALLED["models"].append("struct.unpack_from(fmt, buf, offset) = struct.unpack(fmt, buf[offset:offset+calcsize(fmt)]) with CPython's length rule")
    _PATCH_REGISTRATIONS[struct.unpack] = _struct_unpack
    INSTALLED["models"].append("struct.unpack: explicit 'buffer has exactly calcsize(fmt) bytes' check (struct.error otherwise) in front of CrossHair's conversion model")
    _PATCH_REGISTRATIONS[struct.Struct.pack] = _struct_pack_method
    INSTALLED["models"].append("struct.Struct.pack (six.int2byte) -> CrossHair's struct.pack model")
    _install_bitops()
    INSTALLED["models"].append("x & ~c (Python ~c = -c-1) modelled bitwise as x_k AND NOT c_k for 0 <= x, c < 2**16 / 2**32")
    INSTALLED["models"].append("int |, ^, & (both symbolic) on values in [0,2**16) or [0,2**32): per-bit Boolean expansion (x == sum b_k 2^k) and bitwise connectives; outside that range concretised")
    import pymodbus.utilities as U
    if "crc-exact" in contracts:
        EXACT_CRC["on"] = True
        _PATCH_REGISTRATIONS[U.computeCRC] = _make_crc_exact_contract(U.computeCRC)
        INSTALLED["contracts"].append("computeCRC(data) = the bit-serial CRC-16/0xA001 definition as a z3 bit-vector term over the symbolic bytes, byte-swapped (exact; lemma K1 proves the real table-driven loop equal to it)")
    if "crc" in contracts:
        _PATCH_REGISTRATIONS[U.computeCRC] = _make_crc_contract(U.computeCRC)
        INSTALLED["contracts"].append("computeCRC(data) = swap16(fold(stepU, 0xFFFF, data)), stepU uninterpreted Int x Int -> [0,65535] (justified by lemma K1)")
    if "lrc" in contracts:
        _PATCH_REGISTRATIONS[U.computeLRC] = _make_lrc_contract(U.computeLRC)
        INSTALLED["contracts"].append("computeLRC(data) = (-sum(data)) mod 256 (lemma K2)")
    if "bits" in contracts:
        _PATCH_REGISTRATIONS[U.pack_bitstring] = _make_pack_contract(U.pack_bitstring)
        _PATCH_REGISTRATIONS[U.unpack_bitstring] = _make_unpack_contract(U.unpack_bitstring)
        INSTALLED["contracts"].append("pack_bitstring / unpack_bitstring = LSB-first arithmetic form, zero padding (lemma K3)")


# --------------------------------------------------------------------------- model validation
def validate_models(seed=0):
    """Compare each z3 model with the CPython function it replaces on its complete small domain.

    Pure z3 evaluation (no CrossHair): returns (n_cases, list_of_mismatches).
    """
    import random
    n, bad = 0, []
    x = z3.Int("x")
    hc = _hexchar(x)
    for v in range(16):
        n += 1
        got = z3.simplify(z3.substitute(hc, (x, z3.IntVal(v)))).as_long()
        if got != ord("%x" % v):
            bad.append(("hexchar", v, got))
    for v in range(16):
        n += 1
        lo_c = z3.simplify(z3.substitute(_hexchar(x), (x, z3.IntVal(v)))).as_long()
        up_c = z3.simplify(z3.substitute(_hexchar_up(x), (x, z3.IntVal(v)))).as_long()
        if bytes([lo_c]).upper() != bytes([up_c]) or int(bytes([lo_c]), 16) != v or int(bytes([up_c]), 16) != v:
            bad.append(("hexchar identities", v, lo_c, up_c))
    hv, ih = _hexval(x), _ishex(x)
    for c in range(256):
        n += 1
        isx = z3.is_true(z3.simplify(z3.substitute(ih, (x, z3.IntVal(c)))))
        real = chr(c) in "0123456789abcdefABCDEF"
        if isx != real:
            bad.append(("ishex", c, isx))
        if real:
            got = z3.simplify(z3.substitute(hv, (x, z3.IntVal(c)))).as_long()
            if got != int(chr(c), 16):
                bad.append(("hexval", c, got))
    # b2a_hex / a2b_hex on all 256 bytes through the real functions
    for v in range(256):
        n += 1
        exp = binascii.b2a_hex(bytes([v]))
        got = bytes([z3.simplify(z3.substitute(_hexchar(x / 16), (x, z3.IntVal(v)))).as_long(),
                     z3.simplify(z3.substitute(_hexchar(x % 16), (x, z3.IntVal(v)))).as_long()])
        if got != exp:
            bad.append(("b2a_hex", v, got))
    # int(b, 16) on every 1- and 2-byte string: the model's case analysis evaluated concretely vs the real int()
    def real_int(bs):
        try:
            return int(bs, 16)
        except ValueError:
            return None
    HEX = set(b"0123456789abcdefABCDEF")
    WS = {9, 10, 11, 12, 13, 32}
    def hv(c):
        return c - 48 if c <= 57 else (c - 55 if c <= 70 else c - 87)
    def model_int(bs):
        if all(c in HEX for c in bs):
            v = 0
            for c in bs:
                v = v * 16 + hv(c)
            return v
        if len(bs) == 2:
            c0, c1 = bs
            if (c0 in WS and c1 in HEX) or (c0 in HEX and c1 in WS) or (c0 in (43, 45) and c1 in HEX):
                return (-hv(c1) if c0 == 45 else hv(c1)) if c1 in HEX else hv(c0)
        return None
    for c0 in range(256):
        for c1 in list(range(256)) + [None]:
            n += 1
            bs = bytes([c0]) if c1 is None else bytes([c0, c1])
            if model_int(bs) != real_int(bs):
                bad.append(("int16", bs, real_int(bs), model_int(bs)))
    # bit ops
    rnd = random.Random(seed)
    a, b = z3.Int("a"), z3.Int("b")
    cases = [(i, j) for i in range(0, 256, 17) for j in range(0, 256, 13)] + \
            [(rnd.randrange(65536), rnd.randrange(65536)) for _ in range(200)]
    for (i, j) in cases:
        for name, pyop in (("and", ops.and_), ("or", ops.or_), ("xor", ops.xor)):
            n += 1
            got = z3.simplify(_bitwise(None, {"and": ops.and_, "or": ops.or_, "xor": ops.xor}[name], z3.IntVal(i), z3.IntVal(j), 16)).as_long()
            if got != pyop(i, j):
                bad.append((name, i, j, got))
    for (i, j) in cases[:100]:
        n += 1
        if (i & ~j) != i - (i & j):
            bad.append(("and-not identity", i, j))
    return n, bad
