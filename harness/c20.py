"""C20 -- device identification is returned completely, in pages that fit.

chain.<category>.start<id>: identity objects are symbolic byte strings of SYMBOLIC LENGTH 0..245; the harness
follows the more-follows / next-object-id chain through ServerDecoder -> execute -> encode for at most
(#objects + 2) requests. Asserted: every PDU <= 253 bytes; every response's bytes are exactly its header
fields plus the objects it claims to carry; the chain terminates; the union of pages is exactly the non-empty
objects of the category from the start id on, each once, with its exact value.
single.<id>: individual access (read code 4) returns exactly the requested object.
(Client-side decoding of such responses is C01's dec.ReadDeviceInformationResponse.)
"""
from engine.hlib import assume, same, explain, known
from engine.obl import Obl

LEVEL = "model_checking"
EXPLANATION = ("Bounded symbolic model checking of ReadDeviceInformationRequest.execute, DeviceInformationFactory.get and "
               "ReadDeviceInformationResponse.encode/_encode_object over identity objects of symbolic length 0..245 and symbolic content, "
               "following the whole request/response chain.")
ASSUMPTIONS = ["populated object ids are the concrete set named per obligation (they are dictionary keys); values and their lengths are symbolic",
               "for start ids that are not a populated object of the category only the size bound and termination are asserted (as the property says)"]

CATEGORY = {1: [0, 1, 2], 2: [0, 1, 2, 3, 4, 5, 6], 3: [0, 1, 2, 3, 4, 5, 6] + list(range(0x80, 0x100))}


def _set_identity(objs):
    from pymodbus.device import ModbusControlBlock
    ident = ModbusControlBlock().Identity
    data = ident._ModbusDeviceIdentification__data
    data.clear()
    data.update({i: '' for i in range(9)})
    for oid, v in objs:
        data[oid] = v
    return ident


def make_chain(read_code, ids, start, check_content=True, lens=None):
    """lens=None: symbolic lengths, paging decided on lengths and header fields (no byte equality, which would make the
    engine enumerate lengths); lens=(...): concrete lengths, response bytes compared with the claimed content."""
    n = len(ids)

    def run(vals):
        from pymodbus.factory import ServerDecoder
        for i, v in enumerate(vals):
            if lens is None:
                assume(len(v) <= 245)
            else:
                assume(len(v) == lens[i])
        hit245 = False
        for v in vals:
            hit245 = hit245 | (len(v) == 245)
        if lens is None or 245 not in lens:
            known("KF-mei-object-245", hit245)
        if start != 0 and start in ids and check_content:
            assume(len(vals[ids.index(start)]) > 0)      # the start id is a populated object (or 0), as the property states
        _set_identity(list(zip(ids, vals)))
        try:
            expected = [(oid, v) for oid, v in sorted(zip(ids, vals), key=lambda p: p[0])
                        if oid >= start and oid in CATEGORY[read_code] and len(v) > 0]
            seen = []
            oid = start
            done = False
            for step in range(n + 2):
                req = ServerDecoder().decode(bytes([0x2B, 0x0E, read_code, oid]))
                if req is None:
                    explain("request not decoded")
                    return False
                resp = req.execute(None)
                if resp.function_code >= 0x80:
                    explain("exception response %r for object id %r", resp.exception_code, oid)
                    return False
                body = resp.encode()
                if not (1 + len(body) <= 253):
                    explain("PDU of %d bytes", 1 + len(body))
                    return False
                k = resp.number_of_objects
                items = list(resp.information.items())
                if not (0 <= k <= len(items)):
                    return False
                page = items[:k]
                if lens is None:
                    size = 6
                    for o, v in page:
                        size = size + 2 + len(v)
                    if len(body) != size:
                        explain("response body of %r bytes, its header and claimed objects need %r", len(body), size)
                        return False
                else:
                    exp_body = bytes([0x0E, read_code, resp.conformity, resp.more_follows, resp.next_object_id, k])
                    for o, v in page:
                        exp_body = exp_body + bytes([o, len(v)]) + v
                    if not same(body, exp_body, "response bytes vs. the objects the response claims to carry"):
                        return False
                    # the client's side of the chain: its decoder must turn those bytes back into this page
                    from pymodbus.factory import ClientDecoder
                    try:
                        cd = ClientDecoder().decode(bytes([0x2B]) + body)
                    except Exception as e:
                        explain("client decoder raised %s on a %d-byte response PDU", type(e).__name__, 1 + len(body))
                        return False
                    if cd is None or type(cd).__name__ != "ReadDeviceInformationResponse":
                        explain("client decoder returned %r for a %d-byte response PDU", cd, 1 + len(body))
                        return False
                    if cd.more_follows != resp.more_follows or cd.next_object_id != resp.next_object_id or cd.number_of_objects != k:
                        explain("client-side header fields differ")
                        return False
                    if sorted(cd.information.items()) != sorted(page):
                        explain("client-side objects differ from the page sent")
                        return False
                seen = seen + page
                if resp.more_follows == 0x00:
                    done = True
                    break
                if resp.more_follows != 0xFF:
                    explain("more-follows byte %r", resp.more_follows)
                    return False
                # known finding: an object of length 245 can never be sent (the chain does not advance)
                nxt = resp.next_object_id
                if k == 0 and nxt == oid:
                    explain("no progress: empty page pointing at the same object id %r", oid)
                    return False
                oid = nxt
            if not done:
                explain("chain did not terminate within %d requests", n + 2)
                return False
            if not check_content:
                return True
            if len(seen) != len(expected):
                explain("%d objects returned, %d configured", len(seen), len(expected))
                return False
            for (o1, v1), (o2, v2) in zip(seen, expected):
                # (the response object carries the configured value objects themselves; comparing by identity first
                #  keeps the symbolic lengths symbolic -- the bytes on the wire are the bytes.* obligations' subject)
                if o1 != o2 or not (v1 is v2 or v1 == v2):
                    explain("object %r differs", o2)
                    return False
            return True
        finally:
            _set_identity([])

    if n == 1:
        def chain(v0: bytes) -> bool:
            return run([v0])
    elif n == 2:
        def chain(v0: bytes, v1: bytes) -> bool:
            return run([v0, v1])
    elif n == 3:
        def chain(v0: bytes, v1: bytes, v2: bytes) -> bool:
            return run([v0, v1, v2])
    else:
        def chain(v0: bytes, v1: bytes, v2: bytes, v3: bytes) -> bool:
            return run([v0, v1, v2, v3])
    return chain


def make_single(ids, target, L):
    def single(v0: bytes, v1: bytes) -> bool:
        from pymodbus.factory import ServerDecoder
        vals = [v0, v1]
        assume(1 <= len(v0) <= 245)
        assume(len(v1) == L)
        if L != 245:
            known("KF-mei-object-245", len(v0) == 245)
        else:
            assume(len(v0) < 245)
        _set_identity(list(zip(ids, vals)))
        try:
            req = ServerDecoder().decode(bytes([0x2B, 0x0E, 4, target]))
            resp = req.execute(None)
            if resp.function_code >= 0x80:
                return False
            body = resp.encode()
            if 1 + len(body) > 253:
                explain("PDU of %d bytes", 1 + len(body))
                return False
            v = vals[ids.index(target)]
            exp = bytes([0x0E, 4, resp.conformity, 0, 0, 1, target, len(v)]) + v
            return same(body, exp, "individual access response")
        finally:
            _set_identity([])
    return single


def config_history(a: bytes, b: bytes, a2: bytes, b2: bytes, how: int) -> bool:
    """the identity is configured through its PUBLIC interface, twice (values may become empty again): a basic read
    returns exactly the objects that are non-empty after the second configuration step"""
    from pymodbus.factory import ServerDecoder
    from pymodbus.device import ModbusControlBlock
    assume(len(a) <= 2 and len(b) <= 2 and len(a2) <= 2 and len(b2) <= 2)
    assume(0 <= how <= 2)
    ident = _set_identity([])
    try:
        ident.update({0: a, 1: b})
        if how == 0:
            ident.update({0: a2, 1: b2})
        elif how == 1:
            ident[0] = a2
            ident[1] = b2
        else:
            ident.VendorName = a2
            ident.ProductCode = b2
        expected = [(oid, v) for oid, v in ((0, a2), (1, b2)) if len(v) > 0]
        req = ServerDecoder().decode(bytes([0x2B, 0x0E, 1, 0]))
        resp = req.execute(None)
        if resp.function_code >= 0x80:
            return len(expected) == 0 or False
        resp.encode()
        got = list(resp.information.items())[:resp.number_of_objects]
        if len(got) != len(expected):
            explain("basic read returns %d objects, %d are configured non-empty", len(got), len(expected))
            return False
        for (o1, v1), (o2, v2) in zip(got, expected):
            if o1 != o2 or v1 != v2:
                explain("object %r", o2)
                return False
        return True
    finally:
        _set_identity([])


def obligations(tier):
    T = 180 if tier == "quick" else 1200
    out = [Obl("config.history", config_history, timeout=T,
               bounds="identity objects 0 and 1 configured twice through update() / item assignment / named properties (values of 0..2 symbolic bytes, empty included), then a basic read from object 0")]
    cases = [
        (1, [0, 1, 2], 0), (1, [0, 1, 2], 1), (1, [0, 1, 2], 2),
        (2, [0, 2, 5], 0), (2, [1, 4, 6], 4),
        (3, [0, 0x80, 0xFF], 0), (3, [2, 0x80, 0x90], 0x80),
        (3, [0x90, 0x85, 0x82], 0),          # private objects configured in non-ascending order
    ]
    if tier != "quick":
        cases += [(2, [0, 1, 2, 3], 0), (2, [3, 4, 5, 6], 3), (3, [0, 6, 0x80, 0xFF], 0), (3, [0x80, 0x81, 0xFE, 0xFF], 0x81),
                  (2, [0, 3, 6], 3), (1, [0, 1], 0)]
    for code, ids, start in cases:
        name = "chain.code%d.ids%s.start%d" % (code, "-".join("%x" % i for i in ids), start)
        out.append(Obl(name, make_chain(code, ids, start), timeout=T, findings=("KF-mei-object-245",) if (code, start) in ((1, 0), (3, 0)) else (),
                       bounds="read code %d, populated object ids %s, start id %d; each value a symbolic byte string of SYMBOLIC length 0..245; chain of <= %d requests; paging decided on lengths/header fields" % (
                           code, ids, start, len(ids) + 2)))
    lens_cases = [(1, 1, 1), (245, 1, 0), (244, 244, 3), (100, 100, 100), (0, 5, 0)]
    if tier != "quick":
        lens_cases += [(245, 245, 245), (120, 121, 1), (1, 245, 1), (243, 2, 2)]
    for lens in lens_cases:
        for code, ids, start in [(1, [0, 1, 2], 0), (3, [0, 0x80, 0xFF], 0)]:
            name = "bytes.code%d.ids%s.lens%s" % (code, "-".join("%x" % i for i in ids), "-".join(map(str, lens)))
            out.append(Obl(name, make_chain(code, ids, start, lens=lens), timeout=T,
                           whole_finding="KF-mei-object-245" if 245 in lens else None,
                           bounds="read code %d, object ids %s with value lengths %s (concrete) and symbolic content: response bytes equal header + claimed objects along the whole chain" % (code, ids, list(lens))))
    # start ids that are not populated objects: only size bound and termination
    for code, ids, start in [(1, [0, 2], 1), (2, [0, 5], 3), (3, [0, 0x80], 7)]:
        name = "chain-unpopulated-start.code%d.ids%s.start%d" % (code, "-".join("%x" % i for i in ids), start)
        out.append(Obl(name, make_chain(code, ids, start, check_content=False), timeout=T,
                       bounds="start id %d is not a populated object: only PDU size <= 253, byte consistency and termination are asserted" % start))
    for L in (1, 245) if tier == "quick" else (1, 2, 100, 244, 245):
        out.append(Obl("single.ids0-2.target2.len%d" % L, make_single([0, 2], 2, L), timeout=T, whole_finding="KF-mei-object-245" if L == 245 else None,
                       bounds="individual access to object 2 of length %d (content symbolic); another populated object of symbolic length" % L))
        out.append(Obl("single.ids1-80.target80.len%d" % L, make_single([1, 0x80], 0x80, L), timeout=T, whole_finding="KF-mei-object-245" if L == 245 else None,
                       bounds="individual access to extended object 0x80 of length %d (content symbolic)" % L))
    return out
