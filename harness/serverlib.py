"""Drivers for the server front-ends: no sockets, threads, reactors or selector loops.

Each driver feeds a list of chunks ("reads" / datagrams) to ONE connection of a front-end and records the bytes the
front-end writes back. The fakes below (socket, transport, mini event loop) are the environment; everything between
them -- handler loops, execute(), send(), framers, decoder, datastore -- is the repository's code.

drive(frontend, framing, server_context, chunks, ...) -> Result(written=[bytes...], escaped=exception or None, closed=bool)
frontends: sync-tcp (ModbusConnectedRequestHandler), sync-serial (ModbusSingleRequestHandler), sync-udp
(ModbusDisconnectedRequestHandler, one handler per datagram), asyncio-tcp, asyncio-udp, twisted-tcp, twisted-udp.
"""
import asyncio
import collections

FRONTENDS = ["sync-tcp", "sync-serial", "sync-udp", "asyncio-tcp", "asyncio-udp", "twisted-tcp", "twisted-udp"]
STREAM = {"sync-tcp", "sync-serial", "asyncio-tcp", "twisted-tcp"}


class Result(object):
    def __init__(self):
        self.written = []
        self.sent_to = []            # datagram front-ends: (peer address, data) per datagram sent
        self.escaped = None
        self.closed = False          # the front-end gave the connection up on its own (not: the peer closed it)
        self.saw_eof = False
        self.decoder = None


class _Stop(BaseException):
    """ends a handler loop that has no other exit (the serial handler polls for ever)"""


class FakeSocket(object):
    def __init__(self, chunks, res, stop_with_exception):
        self.chunks = list(chunks)
        self.res = res
        self.stop_with_exception = stop_with_exception
        self.handler = None

    def recv(self, n):
        if self.chunks:
            return self.chunks.pop(0)
        self.res.saw_eof = True
        if self.stop_with_exception:
            if self.handler is not None:
                self.handler.running = False
            raise _Stop()
        return b""                      # orderly shutdown by the peer

    def send(self, data):
        self.res.written.append(data)
        return len(data)

    def sendto(self, data, addr):
        self.res.written.append(data)
        self.res.sent_to.append((addr, data))
        return len(data)


class FakeServer(object):
    def __init__(self, framer_cls, context, decoder, ignore_missing_slaves, broadcast_enable):
        from pymodbus.device import ModbusControlBlock
        self.framer = framer_cls
        self.decoder = decoder
        self.context = context
        self.control = ModbusControlBlock()
        self.threads = []
        self.ignore_missing_slaves = ignore_missing_slaves
        self.broadcast_enable = broadcast_enable
        self.active_connections = {}


class FakeTransport(object):
    def __init__(self, res):
        self.res = res

    def write(self, data, addr=None):
        self.res.written.append(data)
        self.res.sent_to.append((addr, data))

    def sendto(self, data, addr=None):
        self.res.written.append(data)
        self.res.sent_to.append((addr, data))

    def close(self):
        self.res.closed = True

    def get_extra_info(self, name, default=None):
        return ("peer", 1)

    def getHost(self):
        return "host"


class MiniLoop(asyncio.AbstractEventLoop):
    """call_soon queue + tasks + futures; no selector, no clock"""
    def __init__(self):
        self._q = collections.deque()
        self._exc = []

    def call_soon(self, callback, *args, context=None):
        h = asyncio.Handle(callback, args, self, context)
        self._q.append(h)
        return h

    def create_future(self):
        return asyncio.Future(loop=self)

    def create_task(self, coro, *, name=None, context=None):
        return asyncio.Task(coro, loop=self)

    def get_debug(self):
        return False

    def is_running(self):
        return True

    def is_closed(self):
        return False

    def time(self):
        return 0.0

    def call_exception_handler(self, context):
        self._exc.append(context)

    def run_pending(self, limit=10000):
        n = 0
        while self._q and n < limit:
            h = self._q.popleft()
            if not h.cancelled():
                h._run()
            n += 1


def _drive_sync(frontend, framer_cls, context, decoder, chunks, res, ignore_missing, broadcast, peers=None, burst=False):
    import pymodbus.server.sync as S
    server = FakeServer(framer_cls, context, decoder, ignore_missing, broadcast)
    if frontend == "sync-udp":
        for i, chunk in enumerate(chunks):
            sock = FakeSocket([], res, False)
            try:
                S.ModbusDisconnectedRequestHandler((chunk, sock), peers[i] if peers else ("peer", 1), server)
            except Exception as e:
                res.escaped = e
                return
        return
    cls = S.ModbusConnectedRequestHandler if frontend == "sync-tcp" else S.ModbusSingleRequestHandler
    sock = FakeSocket(chunks, res, stop_with_exception=(frontend == "sync-serial"))
    try:
        if frontend == "sync-serial":
            # ModbusSerialServer builds its handler with CustomSingleRequestHandler (no handle() in the constructor)
            h = S.CustomSingleRequestHandler(sock, ("port", "port"), server)
            sock.handler = h
            try:
                h.handle()
            except _Stop:
                pass
        else:
            cls(sock, ("peer", 1), server)
            # the connected handler returns when the peer closes (EOF seen) or when it gives the connection up itself
            res.closed = not getattr(res, "saw_eof", False)
    except _Stop:
        pass
    except Exception as e:
        res.escaped = e


def _drive_asyncio(frontend, framer_cls, context, decoder, chunks, res, ignore_missing, broadcast, peers=None, burst=False):
    import asyncio.events as events
    import pymodbus.server.async_io as A
    loop = MiniLoop()
    old = events._get_running_loop()
    events._set_running_loop(loop)
    try:
        server = FakeServer(framer_cls, context, decoder, ignore_missing, broadcast)
        if frontend == "asyncio-tcp":
            h = A.ModbusConnectedRequestHandler(server)
        else:
            h = A.ModbusBaseRequestHandler.__new__(A.ModbusDisconnectedRequestHandler)
            A.ModbusBaseRequestHandler.__init__(h, server)       # (the subclass __init__ only creates a bookkeeping future)
            server.on_connection_terminated = loop.create_future()
            h.protocol = None
        h.connection_made(FakeTransport(res))
        loop.run_pending()
        for i, chunk in enumerate(chunks):
            if res.closed:
                break
            if frontend == "asyncio-tcp":
                h.data_received(chunk)
            else:
                h.datagram_received(chunk, peers[i] if peers else ("peer", 1))
            if not burst:
                loop.run_pending()      # (burst: the datagrams arrive back-to-back, before the handler task runs)
        loop.run_pending()
        if loop._exc:
            res.escaped = loop._exc[0].get("exception") or RuntimeError(str(loop._exc[0]))
        t = h.handler_task
        if t.done() and not t.cancelled() and t.exception() is not None:
            res.escaped = t.exception()
    except Exception as e:
        res.escaped = e
    finally:
        events._set_running_loop(old)


def _drive_twisted(frontend, framer_cls, context, decoder, chunks, res, ignore_missing, broadcast, peers=None, burst=False):
    import pymodbus.server.asynchronous as T
    if frontend == "twisted-tcp":
        f = T.ModbusServerFactory(context, framer_cls, ignore_missing_slaves=ignore_missing)
        f.decoder = decoder
        p = T.ModbusTcpProtocol()
        p.factory = f
        p.transport = FakeTransport(res)
        p.connectionMade()
        for chunk in chunks:
            try:
                p.dataReceived(chunk)
            except Exception as e:
                # Twisted's reactor contract: an exception in dataReceived is logged and that connection is dropped
                res.closed = True
                res.twisted_dropped = e
                break
    else:
        p = T.ModbusUdpProtocol(context, framer_cls, ignore_missing_slaves=ignore_missing)
        p.decoder = decoder
        p.framer = framer_cls(decoder)
        p.transport = FakeTransport(res)
        for i, chunk in enumerate(chunks):
            try:
                p.datagramReceived(chunk, peers[i] if peers else ("peer", 1))
            except Exception as e:
                # reactor contract for datagram protocols: the exception is logged, the port keeps serving
                res.twisted_dropped = e


def drive(frontend, framing, context, chunks, ignore_missing=False, broadcast=False, decoder=None, peers=None, burst=False):
    from pymodbus.factory import ServerDecoder
    from pymodbus.device import ModbusControlBlock
    from spec.adu import framer_class
    ModbusControlBlock().ListenOnly = False
    res = Result()
    res.twisted_dropped = None
    decoder = decoder or ServerDecoder()
    res.decoder = decoder
    fc = framer_class(framing)
    if frontend.startswith("sync"):
        _drive_sync(frontend, fc, context, decoder, chunks, res, ignore_missing, broadcast, peers, burst)
    elif frontend.startswith("asyncio"):
        _drive_asyncio(frontend, fc, context, decoder, chunks, res, ignore_missing, broadcast, peers, burst)
    else:
        _drive_twisted(frontend, fc, context, decoder, chunks, res, ignore_missing, broadcast, peers, burst)
    return res


def small_context(zero_mode=True, hr=None, co=None):
    """slave context with four small blocks at address 0"""
    from pymodbus.datastore import ModbusSlaveContext
    from harness.c04 import _block
    return ModbusSlaveContext(di=_block(0, [False] * 4), co=_block(0, list(co) if co is not None else [False] * 4),
                              hr=_block(0, list(hr) if hr is not None else [0] * 4), ir=_block(0, [0] * 4), zero_mode=zero_mode)


def server_context(slave, single=True, units=None):
    from pymodbus.datastore import ModbusServerContext
    if single:
        return ModbusServerContext(slaves=slave, single=True)
    ctx = ModbusServerContext(slaves={}, single=False)
    from engine.hlib import eqdict
    d = eqdict()
    for u, s in units:
        d[u] = s
    ctx._slaves = d
    return ctx


def dump(slave):
    return {k: list(slave.store[k].values) for k in "dcih"}
