"""C01 -- PDU wire format conforms to the Modbus application protocol.

Per message class x direction x concrete shape: the body bytes are symbolic, constrained only by the
reference well-formedness predicate of spec/pdu.py.
  enc.<Class>[shape]: message constructed from the fields the reference decoder reads off the wire
                      encodes to exactly those bytes (function code + body).
  dec.<Class>[shape]: the real decoder returns that class with exactly the wire's field values.
  exc.<fc>:           exception layout fc|0x80 + code, both directions, every exception code.
"""
from engine.hlib import assume, same, explain, known
from engine.obl import Obl
from spec import pdu

LEVEL = "model_checking"
EXPLANATION = ("Bounded symbolic model checking of every encode()/decode() in the server and client decoder tables "
               "against reference layouts written from the Modbus Application Protocol v1.1b3: all field values "
               "symbolic, list lengths concrete per obligation.")
ASSUMPTIONS = ["list lengths are the concrete shapes named in each obligation; other lengths are outside the claim",
               "bit packing appears as the K3 arithmetic contract inside message harnesses (K3 proves the real functions equal it)"]

# known findings (ids in /verif/known_findings.json); the regions are whole obligations here
KF = {
    ("dec", "ReportSlaveIdResponse"): "KF-slaveid-decode",
    ("enc", "ReadFifoQueueResponse"): "KF-fifo-encode",
    ("dec", "ReadFifoQueueResponse"): "KF-fifo-decode",
    ("enc", "ReadFileRecordResponse"): "KF-filerecord-response-encode",
}


def kf(op, S, shape):
    if S.name == "ReadFifoQueueResponse" and shape == 0:
        return None          # an empty FIFO response is encoded/decoded correctly
    return KF.get((op, S.name))


def _decoder(dir):
    from pymodbus.factory import ServerDecoder, ClientDecoder
    return ServerDecoder() if dir == "req" else ClientDecoder()


def fields_equal(got, exp):
    if set(got.keys()) != set(exp.keys()):
        explain("field sets differ: %r vs %r", sorted(got), sorted(exp))
        return False
    for k in exp:
        if not same(got[k], exp[k], k):
            return False
    return True


def make_enc(S, shape):
    L = S.blen(shape)

    def enc(b: bytes) -> bool:
        assume(len(b) == L)
        for c in S.wf(b, shape) + S.wf_enc(b, shape):
            assume(c)
        f = S.fields(b, shape)
        m = S.build(f, shape)
        got = bytes([m.function_code]) + m.encode()
        return same(got, bytes([S.fc]) + b, "encoded PDU")
    return enc


def make_dec(S, shape):
    L = S.blen(shape)

    def dec(b: bytes) -> bool:
        assume(len(b) == L)
        for c in S.wf(b, shape):
            assume(c)
        m = _decoder(S.dir).decode(bytes([S.fc]) + b)
        if m is None:
            explain("decoder returned None")
            return False
        if type(m).__name__ != S.name:
            explain("decoded class %s, expected %s", type(m).__name__, S.name)
            return False
        if m.function_code != S.fc:
            return False
        return fields_equal(S.get(m, shape), S.fields(b, shape))
    return dec


def make_pair(S, shape):
    """Two independent messages of the same class in one process: the second decode/encode must not see state
    left behind by the first (class-level or default-argument state shared between instances), and must not
    disturb the first message."""
    L = S.blen(shape)

    def pair(b1: bytes, b2: bytes) -> bool:
        assume(len(b1) == L)
        assume(len(b2) == L)
        for c in S.wf(b1, shape) + S.wf(b2, shape):
            assume(c)
        m1 = _decoder(S.dir).decode(bytes([S.fc]) + b1)
        m2 = _decoder(S.dir).decode(bytes([S.fc]) + b2)
        if m1 is None or m2 is None or m1 is m2:
            return False
        if not fields_equal(S.get(m2, shape), S.fields(b2, shape)):
            explain("second decoded message differs from its wire bytes")
            return False
        if not fields_equal(S.get(m1, shape), S.fields(b1, shape)):
            explain("first decoded message was disturbed by the second decode")
            return False
        # and the other direction: two constructed messages encode independently
        for c in S.wf_enc(b1, shape) + S.wf_enc(b2, shape):
            assume(c)
        e1 = S.build(S.fields(b1, shape), shape)
        e2 = S.build(S.fields(b2, shape), shape)
        w1 = e1.encode()
        w2 = e2.encode()
        return same(w2, b2, "second encoded message") and same(w1, b1, "first encoded message") and same(e1.encode(), b1, "first message re-encoded")
    return pair


def make_alias(S, shape):
    """what a decode returns belongs to the caller: after the caller has changed the list-valued fields of a decoded
    message IN PLACE (append / item assignment, as setBit() and friends do), a fresh decode of the same bytes still yields
    exactly the wire values, and the two messages share no list. Runs on the real bit (un)packing, not on its contract."""
    L = S.blen(shape)

    def alias(b1: bytes) -> bool:
        assume(len(b1) == L)
        for c in S.wf(b1, shape):
            assume(c)
        m1 = _decoder(S.dir).decode(bytes([S.fc]) + b1)
        if m1 is None:
            return False
        lists1 = [v for v in vars(m1).values() if type(v) is list]
        for lst in lists1:
            if len(lst) > 0:
                lst[0] = lst[-1]
                lst.append(lst[0])
            else:
                lst.append(0)
        m2 = _decoder(S.dir).decode(bytes([S.fc]) + b1)
        if m2 is None or m2 is m1:
            return False
        for v in vars(m2).values():
            if type(v) is list and any(v is w for w in lists1):
                explain("two decoded messages share one list object")
                return False
        if not fields_equal(S.get(m2, shape), S.fields(b1, shape)):
            explain("a fresh decode differs from its wire bytes after an earlier decoded message was modified in place")
            return False
        return True
    return alias


def make_exc(fc):
    def exc(code: int) -> bool:
        from pymodbus.pdu import ExceptionResponse
        from pymodbus.factory import ClientDecoder
        assume(0 <= code <= 255)
        r = ExceptionResponse(fc, code)
        if r.function_code != fc + 0x80:
            return False
        if bytes([r.function_code]) + r.encode() != bytes([fc + 0x80, code]):
            explain("exception PDU bytes")
            return False
        m = ClientDecoder().decode(bytes([fc + 0x80, code]))
        if m is None or type(m).__name__ != "ExceptionResponse":
            explain("decode of exception PDU gave %r", m)
            return False
        return m.function_code == fc + 0x80 and m.exception_code == code and m.original_code == fc and m.isError()
    return exc


def make_req_exception(S, shape):
    """request.doException(code) builds the exception response of its own function code"""
    L = S.blen(shape)

    def reqexc(b: bytes, code: int) -> bool:
        assume(len(b) == L)
        assume(0 <= code <= 255)
        for c in S.wf(b, shape):
            assume(c)
        m = S.build(S.fields(b, shape), shape)
        r = m.doException(code)
        return bytes([r.function_code]) + r.encode() == bytes([S.fc + 0x80, code])
    return reqexc


def needs_bits(S):
    return isinstance(S, (pdu.BitsResponse, pdu.WriteCoilsRequest))


def obligations(tier):
    from harness import kernels
    T = 90 if tier == "quick" else 600
    out = [kernels.K3(tier)]
    for S in pdu.all_specs():
        for shape in S.shapes(tier):
            key = S.key(shape)
            contracts = ("bits",) if needs_bits(S) else ()
            lem = ("K3",) if contracts else ()
            bounds = "%s PDU, shape %s: all %d body bytes symbolic subject to the spec's well-formedness predicate" % (
                S.dir, shape, S.blen(shape))
            out.append(Obl("enc." + key, make_enc(S, shape), bounds=bounds, timeout=T, contracts=contracts, lemmas=lem,
                           whole_finding=kf("enc", S, shape)))
            out.append(Obl("dec." + key, make_dec(S, shape), bounds=bounds, timeout=T, contracts=contracts, lemmas=lem,
                           whole_finding=kf("dec", S, shape)))
    for S in pdu.all_specs():
        shapes = S.shapes(tier)
        shape = shapes[-1] if tier == "quick" else shapes[min(2, len(shapes) - 1)]
        if S.blen(shape) == 0:
            continue
        contracts = ("bits",) if needs_bits(S) else ()
        wf = kf("dec", S, shape) or kf("enc", S, shape)
        out.append(Obl("pair." + S.key(shape), make_pair(S, shape), timeout=T, contracts=contracts,
                       lemmas=("K3",) if contracts else (), whole_finding=wf,
                       bounds="two independent %s PDUs of shape %s decoded / encoded one after the other in one process, all body bytes symbolic" % (S.dir, shape)))
    for S in pdu.all_specs():
        if kf("dec", S, S.shapes("quick")[0]):
            continue
        # the smallest shape with a non-empty list (bit lists: one data byte)
        cand = [sh for sh in S.shapes(tier) if S.blen(sh) > 0]
        if not cand or isinstance(S, (pdu.Fixed, pdu.Diag)):
            continue        # (classes without list-valued fields)
        sh = min(cand, key=S.blen)
        out.append(Obl("alias." + S.key(sh), make_alias(S, sh), timeout=T,
                       bounds="%s PDU of shape %s decoded, its list fields modified in place, the same bytes decoded again: wire values, no shared list; real unpack_bitstring" % (S.dir, sh)))
    for fc in pdu.SUPPORTED_FCS:
        out.append(Obl("exc.fc%d" % fc, make_exc(fc), bounds="function code %d, all 256 exception codes" % fc, timeout=T))
    for S in pdu.all_specs():
        if S.dir == "req" and isinstance(S, pdu.Fixed) and S.fc in (1, 5, 6, 22):
            out.append(Obl("reqexc." + S.name, make_req_exception(S, None), bounds="all field values, all exception codes", timeout=T))
    return out
