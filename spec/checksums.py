"""Reference checksums written from the Modbus over Serial Line spec v1.02 (sections 6.2.2 / 6.2.1,
appendix B), independently of pymodbus. Concrete Python and z3 bit-vector versions."""


def crc16_modbus(data):
    """CRC-16/MODBUS, bit-serial: init 0xFFFF, reflected polynomial 0xA001. Returns the 16-bit
    register; on the wire the LOW byte goes first."""
    crc = 0xFFFF
    for byte in data:
        crc ^= byte
        for _ in range(8):
            if crc & 1:
                crc = (crc >> 1) ^ 0xA001
            else:
                crc >>= 1
    return crc


def crc_wire(data):
    c = crc16_modbus(data)
    return bytes([c & 0xFF, c >> 8])


def lrc(data):
    """LRC: two's complement of the 8-bit sum of the bytes."""
    return (-sum(data)) % 256


def z3_crc_step(crc, a, W=32):
    """One byte of the bit-serial CRC on z3 bit-vectors of width W."""
    import z3
    x = crc ^ a
    for _ in range(8):
        x = z3.If((x & 1) == 1, z3.LShR(x, 1) ^ z3.BitVecVal(0xA001, W), z3.LShR(x, 1))
    return x
