"""print the markdown table of DESIGN.md section 10 from seeded/*/meta.json"""
import glob, json, os
rows = []
for p in sorted(glob.glob(os.path.join(os.path.dirname(__file__), '..', 'seeded', '*', 'meta.json'))):
    m = json.load(open(p))
    det = " ".join(m['detected_by'].split())
    if "MISSED" in det or "missed" in det or "only after" in det:
        det = det.replace("MISSED", "**missed**")
    rows.append((m['breaks_property'], m['seed'], det))
print("| seed | property | caught by (quick tier); what had to be strengthened |")
print("|---|---|---|")
for prop, seed, det in sorted(rows):
    print("| %s | %s | %s |" % (seed, prop, det.replace("|", "/")))
