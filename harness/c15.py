"""C15 -- concurrent callers of one synchronous client are serialised.

This family of technique has no engine for thread schedules (CrossHair, like Kani, does not model concurrency). The
schedule quantifier is discharged by a REDUCTION whose premise the solver checks on the real code:

  if every access to the shared transaction state (transport send/receive/connect/close, the framer's buffer,
  the transaction-id counter, the reply slots) is made while one and the same lock is held by the accessing thread,
  and the lock is released on every exit of the call, then every execution of several threads is equivalent to a
  serial execution of whole transactions (standard lock-discipline argument; Python's RLock is trusted).
  Serial correctness from an arbitrary inter-transaction state is C08/C13/C14's subject.

lock.<framing>.r<retries>...: the C13 fault harness (symbolic per-attempt transport behaviour, symbolic contents,
exceptions thrown by the transport) with monitors on every such access. Asserted: at every monitored event exactly
one lock reachable from the client is owned, it is the same lock at all events of both transactions, and no lock
is owned after execute() has returned or raised. The calls go through the public BaseModbusClient.execute, from an
arbitrary client.state (the attribute is shared, so a concurrent caller may see any value).
lock.real-tcp-client: the real ModbusTcpClient (not the scripted subclass) over a fake socket that records lock
ownership at every send/recv/close; unsolicited bytes are left unread between two calls.
prelock-connect.tcp: the connect() that BaseModbusClient.execute makes BEFORE entering the transaction manager is
outside the lock (listed finding: two threads starting on an unconnected client can replace each other's socket). The lock is found by identity among all threading locks reachable
from the client and its transaction manager, not by attribute name.
"""
import threading

from engine.hlib import assume, same, explain, known
from engine.obl import Obl
from spec import adu
from harness.clientlib import make_client
from harness.c13 import BEHAVIOURS, _frames, _not_valid

LEVEL = "other"
EXPLANATION = ("Lock-discipline premise checked by bounded symbolic model checking of the real transaction code under symbolic transport "
               "faults; the step from the premise to 'all interleavings are serialisable' is a stated reduction, not explored schedules. "
               "A race in code that does not pass through the monitored accesses would not be seen.")
ASSUMPTIONS = ["environment model of contention: the first lock acquire that may give up (non-blocking or timed) does give up; blocking acquires succeed",
               "reduction: lock discipline on all shared-state accesses + release on every exit => serialisability (paper argument; CPython RLock trusted)",
               "client.state on entry to the first call is an arbitrary ModbusTransactionState value (what a concurrent thread may have left)",
               "monitored accesses: connect/send/recv/close of the transport, framer addToFrame/resetFrame/advanceFrame/processIncomingPacket, getNextTID, addTransaction, getTransaction",
               "ModbusTransactionState.to_string (log text) is replaced by a constant",
               "inputs as C13: per-attempt symbolic transport behaviour incl. OSError, retries 0..1"]

_LOCK_TYPES = (type(threading.RLock()), type(threading.Lock()))


def find_locks(*objs):
    found = []
    for o in objs:
        for name, val in list(vars(o).items()):
            if isinstance(val, _LOCK_TYPES) and all(val is not f for f in found):
                found.append(val)
    return found


class MonLock(object):
    """delegating proxy put in place of a lock found on the client: counts its critical sections (ownership going from
    not-held to held), so that two accesses of ONE transaction made in two different sections (the lock released and
    taken again in between, e.g. around a back-off sleep) can be told from one uninterrupted section"""

    def __init__(self, real):
        self.real, self.depth, self.sections = real, 0, 0
        # contention model: the FIRST acquire that is allowed to give up (non-blocking, or with a time-out) gives up, as
        # it may whenever another caller holds the lock for long enough; blocking acquires always succeed. Code that
        # goes on to use the transport after a failed acquire is then seen using it with no lock owned.
        self.giveups_left = 1

    def acquire(self, blocking=True, timeout=-1):
        if self.depth == 0 and self.giveups_left > 0 and (not blocking or (timeout is not None and timeout >= 0)):
            self.giveups_left -= 1
            return False
        got = self.real.acquire(blocking, timeout)
        if got:
            if self.depth == 0:
                self.sections += 1
            self.depth += 1
        return got

    def release(self):
        self.depth -= 1
        return self.real.release()

    def __enter__(self):
        return self.acquire()

    def __exit__(self, *a):
        self.release()

    def _is_owned(self):
        return owned(self.real)

    def locked(self):
        return owned(self.real)


def monitor_locks(locks, *objs):
    """replace every attribute of objs that holds one of `locks` by a MonLock around it; returns the proxies in the order of locks"""
    mons = [MonLock(l) for l in locks]
    for o in objs:
        for name, val in list(vars(o).items()):
            for l, m in zip(locks, mons):
                if val is l:
                    setattr(o, name, m)
    return mons


def owned(lock):
    if hasattr(lock, "_is_owned"):
        return lock._is_owned()
    return lock.locked()


def make_lock(framing, retries, roe, roi, prelock=False, choices=(0, 2, 3, 4, 7), ntxn=2):
    ncalls = 1 + retries

    def lock(ch: bytes, u: bytes, v: bytes, g: bytes, st: int) -> bool:
        import socket
        import pymodbus.factory as F
        assume(len(ch) == 2 * ncalls and len(u) == 2 and len(v) == 4 and len(g) == 6)
        assume(0 <= st <= 6)            # client.state as another thread may have left it (all ModbusTransactionState values)
        if framing != "tcp":
            # the serial framers' sendPacket waits (sleeping) until the state is IDLE / TRANSACTION_COMPLETE, i.e. until the
            # thread that owns the transaction has finished: with one thread that wait would never end
            assume((st == 0) | (st == 6))
        unit, other = u[0], u[1]
        assume(1 <= unit <= 247)
        assume(1 <= other <= 247)
        assume(other != unit)
        for i in range(2 * ncalls):
            # full reply, nothing, half a reply, garbage, OSError (the remaining C13 behaviours take the same code paths)
            # (choices: the retry obligation of the quick tier narrows this to full / nothing / another unit's reply)
            ok = ch[i] == choices[0]
            for c in choices[1:]:
                ok = ok | (ch[i] == c)
            assume(ok)
        if framing == "rtu":
            assume(g[1] == 3)
            assume(g[2] <= 4)
            _not_valid(framing, g)
        cl = make_client(framing, rx=b"", retries=retries, retry_on_empty=roe, retry_on_invalid=roi)
        locks = find_locks(cl, cl.transaction, cl.framer)
        if not locks:
            explain("no lock reachable from the client")
            return False
        mons = monitor_locks(locks, cl, cl.transaction, cl.framer)
        events = []          # (event name, tuple of owned flags per lock)
        sections = []        # per event: (transaction number, critical-section counter of every lock)
        pre = []             # connect() calls made by BaseModbusClient.execute before the transaction manager is entered
        where = {"in_txn": False, "txn": 0}

        def note(name):
            flags = tuple(bool(owned(l)) for l in locks)
            if name == "connect" and not where["in_txn"]:
                pre.append((name, flags))
            else:
                events.append((name, flags))
                sections.append((where["txn"], tuple(m.sections for m in mons)))
        orig_execute = cl.transaction.execute

        def txn_execute(request):
            where["in_txn"] = True
            try:
                return orig_execute(request)
            finally:
                where["in_txn"] = False
        cl.transaction.execute = txn_execute

        def wrap(obj, name):
            orig = getattr(obj, name)

            def w(*a, **k):
                note(name)
                return orig(*a, **k)
            setattr(obj, name, w)
        for name in ("addToFrame", "resetFrame", "advanceFrame", "processIncomingPacket"):
            wrap(cl.framer, name)
        for name in ("getNextTID", "addTransaction", "getTransaction"):
            wrap(cl.transaction, name)
        for name in ("connect", "close"):
            wrap(cl, name)
        state = {"pending": b"", "n": 0, "fresh": False, "tid": 1}

        def recv_hook(client, size):
            note("recv")
            if state["fresh"]:
                state["fresh"] = False
                k = ch[state["n"]] if state["n"] < 2 * ncalls else 2
                state["n"] += 1
                fr = _frames(framing, unit, other, state["tid"], v)
                if k == 7:
                    raise socket.error("scripted OSError")
                name = BEHAVIOURS[k]
                if name in fr:
                    state["pending"] = fr[name]
                elif name == "nothing":
                    state["pending"] = b""
                elif name == "half":
                    state["pending"] = fr["full"][:len(fr["full"]) // 2]
                else:
                    state["pending"] = g
            buf = state["pending"]
            out, state["pending"] = (buf, b"") if size is None else (buf[:size], buf[size:])
            return out

        def send_hook(client, request):
            note("send")
            state["fresh"] = True
            state["pending"] = b""
            return len(request)
        for i in range(1, 60):
            cl.faults[("recv", i)] = recv_hook
            cl.faults[("send", i)] = send_hook
        from pymodbus.utilities import ModbusTransactionState as MTS
        MTS.to_string = classmethod(lambda cls, state: "<state>")      # log text only (a dict lookup would realise the symbolic state)
        for txn in range(ntxn):
            req = F.ReadHoldingRegistersRequest(txn, 1)
            req.unit_id = unit
            state["tid"] = (cl.transaction.tid + 1) % 65536
            if txn == 0:
                cl.state = st
            where["txn"] = txn
            try:
                cl.execute(req)             # the public entry point: BaseModbusClient.execute
            except Exception:
                pass                      # (whether a call may raise is C13's subject; the lock must be released anyway)
            for l in locks:
                if owned(l):
                    explain("a lock is still held after transaction %d ended", txn)
                    return False
        if not events:
            return False
        if prelock:
            for name, flags in pre:
                if sum(1 for f in flags if f) != 1:
                    explain("BaseModbusClient.execute calls connect() before the transaction lock is taken (owned locks %r)", flags)
                    return False
            return True
        the = None
        for name, flags in events:
            if sum(1 for f in flags if f) != 1:
                explain("event %s: owned locks %r", name, flags)
                return False
            idx = flags.index(True)
            if the is None:
                the = idx
            elif idx != the:
                explain("event %s guarded by a different lock", name)
                return False
        # one transaction = one critical section: the guarding lock is not let go between two accesses of the same call
        first = {}
        for (name, flags), (txn, secs) in zip(events, sections):
            if txn not in first:
                first[txn] = secs[the]
            elif secs[the] != first[txn]:
                explain("transaction %d: event %s is in critical section %d, its first access was in section %d (lock released mid-transaction)",
                        txn, name, secs[the], first[txn])
                return False
        return True
    return lock


def lock_realtcp(v: bytes, extra: bytes, n_extra: int, u: int) -> bool:
    """the REAL ModbusTcpClient (its own connect/_send/_recv/close) over a fake socket whose every operation records
    lock ownership: two consecutive calls; the first reply is followed by 0..3 unsolicited bytes that are still unread
    when the second call starts. No socket operation may happen while no lock is owned."""
    import pymodbus.client.sync as CS
    import pymodbus.factory as F
    assume(len(v) == 4 and len(extra) == 3)
    assume(0 <= n_extra <= 3)
    assume(1 <= u <= 247)
    now = {"t": 1000}
    events = []
    sections = []
    holder = {"txn": 0}

    def note(name):
        events.append((name, tuple(bool(owned(l)) for l in holder["locks"])))
        sections.append((holder["txn"], tuple(m.sections for m in holder["mons"])))

    def clock():
        now["t"] += 1
        return now["t"]

    class Sock(object):
        def __init__(self):
            self.pending = b""
            self.n = 0

        def setblocking(self, f):
            pass

        def settimeout(self, t):
            pass

        def send(self, data):
            note("socket.send")
            k = self.n
            self.n += 1
            self.pending = self.pending + adu.ref_adu("tcp", bytes([3, 2, v[2 * k], v[2 * k + 1]]), u, bytes([data[0], data[1]]))
            if k == 0:
                self.pending = self.pending + extra[:n_extra]
            return len(data)

        def recv(self, n):
            note("socket.recv")
            if n < 0:
                raise ValueError("negative buffersize in recv")
            out, self.pending = self.pending[:n], self.pending[n:]
            return out

        def close(self):
            note("socket.close")

    def fake_select(r, w, x, t=None):
        return ([r[0]], [], []) if len(r[0].pending) > 0 else ([], [], [])
    old = (CS.time.time, CS.select.select, CS.socket.create_connection)
    cl = CS.ModbusTcpClient("h", timeout=3)
    holder["locks"] = find_locks(cl, cl.transaction, cl.framer)
    if not holder["locks"]:
        return False
    holder["mons"] = monitor_locks(holder["locks"], cl, cl.transaction, cl.framer)
    cl.socket = Sock()
    CS.time.time, CS.select.select = clock, fake_select
    CS.socket.create_connection = lambda *a, **k: Sock()
    from pymodbus.utilities import ModbusTransactionState as MTS
    MTS.to_string = classmethod(lambda cls, state: "<state>")
    try:
        for txn in range(2):
            req = F.ReadHoldingRegistersRequest(txn, 1)
            req.unit_id = u
            holder["txn"] = txn
            try:
                cl.execute(req)
            except Exception:
                pass
            for l in holder["locks"]:
                if owned(l):
                    explain("a lock is still held after call %d", txn)
                    return False
    finally:
        CS.time.time, CS.select.select, CS.socket.create_connection = old
    if not events:
        return False
    for name, flags in events:
        if sum(1 for f in flags if f) != 1:
            explain("%s with owned locks %r (events: %r)", name, flags, [e[0] for e in events])
            return False
    # one call = one critical section of the guarding lock
    first = {}
    for (name, flags), (txn, secs) in zip(events, sections):
        sec = secs[flags.index(True)]
        if txn not in first:
            first[txn] = sec
        elif sec != first[txn]:
            explain("call %d: %s happens in critical section %d, the call's first socket operation was in section %d", txn, name, sec, first[txn])
            return False
    return True


def obligations(tier):
    from harness import kernels
    T = 480 if tier == "quick" else 1500
    out = [kernels.K1(tier), kernels.K2(tier)]
    contracts = {"tcp": (), "rtu": ("crc",), "binary": ("crc",), "ascii": ("lrc",)}
    lem = {"tcp": (), "rtu": ("K1",), "binary": ("K1",), "ascii": ("K2",)}
    configs = [("tcp", 0, False, False), ("rtu", 0, False, False)]
    if tier != "quick":
        configs += [("tcp", 1, True, True), ("rtu", 1, True, True), ("ascii", 0, False, False), ("tcp", 1, False, True), ("tcp", 2, True, True)]
    # one transaction with one retry and both retry switches on, attempts limited to: full reply / nothing / another unit's
    # reply -- the paths through the retry loop (back-off sleep included) in the quick tier
    for framing, choices, names in (("tcp", (0, 2, 3, 4, 5, 7), "full reply / nothing / half a reply / garbage / a reply from another unit / OSError"),
                                    ("rtu", (0, 2, 5), "full reply / nothing / a reply from another unit")):
        out.append(Obl("lock.%s.r1.e1.i1.retry-loop" % framing, make_lock(framing, 1, True, True, choices=choices, ntxn=1), timeout=T,
                       contracts=contracts[framing], lemmas=lem[framing],
                       bounds="%s client, ONE client.execute() call, retries=1, retry_on_empty and retry_on_invalid on, client.state on entry symbolic: per attempt a "
                              "symbolic choice among %s, symbolic contents; asserted as lock.*: every access under one and the same "
                              "lock, in ONE critical section (lock not released between two accesses of the call), no lock held afterwards" % (framing, names)))
    for framing, retries, roe, roi in configs:
        out.append(Obl("lock.%s.r%d.e%d.i%d" % (framing, retries, roe, roi), make_lock(framing, retries, roe, roi), timeout=T,
                       contracts=contracts[framing], lemmas=lem[framing],
                       bounds="%s client, two consecutive client.execute() calls, retries=%d, client.state on entry symbolic (0..6): per attempt a symbolic choice among %s (incl. OSError), symbolic contents; lock ownership recorded at every monitored access (the connect() call that BaseModbusClient.execute makes before entering the transaction manager is the subject of prelock-connect)" % (framing, retries, BEHAVIOURS)))
    out.append(Obl("lock.real-tcp-client", lock_realtcp, timeout=T,
                   bounds="real ModbusTcpClient over a fake socket (select/clock stubbed): two calls, the first reply followed by 0..3 symbolic unsolicited bytes; every socket send/recv/close must happen with the transaction lock owned"))
    from harness import c13
    for method in (("ascii",) if tier == "quick" else ("ascii", "rtu", "binary")):
        out.append(Obl("handover.real-serial.%s" % method, c13.make_realserial(method, (17, 40)), timeout=T, contracts=contracts[method], lemmas=lem[method],
                       bounds="real ModbusSerialClient(%s): a surplus reply of an earlier caller (17 / 40 stale bytes) is waiting on the line when the next caller's transaction starts: that caller gets the reply to its own request (harness shared with C13)" % method))
    out.append(Obl("prelock-connect.tcp", make_lock("tcp", 0, False, False, prelock=True), timeout=T,
                   whole_finding="KF-connect-outside-transaction-lock",
                   bounds="as lock.tcp.r0: the connect() call of BaseModbusClient.execute must be made with the transaction lock owned"))
    return out
