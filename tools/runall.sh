#!/bin/bash
# run every registered quick (or $1=thorough) check sequentially, print one summary line each
cd "$(dirname "$0")/.."
TIER=${1:-quick}
for id in $(python3 -c "import json; print(' '.join(c['property_id'] for c in json.load(open('MANIFEST.json'))['checks']))"); do
  out=$(./check $id $TIER 2>/dev/null); rc=$?
  echo "rc=$rc $(echo "$out" | tail -1)"
  echo "$out" | grep -E "^(VIOLATION|HARNESS-ERROR)" | head -5
done
