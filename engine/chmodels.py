def install(INSTALLED, contracts=()):
    pass
