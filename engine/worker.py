"""Worker: analyse one obligation in this process and print a JSON result on the last stdout line.

usage: python -m engine.worker <harness-module> <tier> <obligation-name> <modes,comma-separated>
mode: main | twin | witness:<finding-id>
"""
import json
import os
import sys
import time
import traceback

sys.path.insert(0, os.path.dirname(os.path.dirname(os.path.abspath(__file__))))
sys.setrecursionlimit(10000)


def find(module, tier, name):
    import importlib
    mod = importlib.import_module(module)
    for o in mod.obligations(tier):
        if o.name == name:
            return o
    raise KeyError(name)


def main():
    module, tier, name, modes = sys.argv[1:5]
    scale = float(os.environ.get("VERIF_TIMEOUT_SCALE", "1"))
    out = {"obligation": name, "results": {}}
    try:
        from engine import hlib
        o = find(module, tier, name)
        if o.kind == "smt":
            t0 = time.perf_counter()
            r = o.run()
            r.setdefault("wall_s", round(time.perf_counter() - t0, 3))
            out["results"]["main"] = r
        else:
            from engine import chcore, chplugin
            contracts = tuple(o.contracts)
            if os.environ.get("VERIF_CRC_EXACT"):
                # refinement run: the uninterpreted CRC is replaced by the exact bit-vector CRC
                contracts = tuple("crc-exact" if c == "crc" else c for c in contracts)
            info = chplugin.install(contracts=contracts)
            out["stubs_and_models"] = {k: v for k, v in info.items() if k != "done"}
            hlib.STATE["symbolic"] = True
            ppt = o.per_path_timeout or max(10.0, o.timeout * scale / 3.0)
            for mode in modes.split(","):
                if mode.startswith("witness:"):
                    hlib.STATE["witness"] = mode.split(":", 1)[1]
                    r = chcore.analyze(o.fn, "main", timeout=o.timeout * scale, per_path_timeout=ppt)
                else:
                    hlib.STATE["witness"] = None
                    r = chcore.analyze(o.fn, mode, timeout=o.timeout * scale,
                                       per_path_timeout=ppt)
                out["results"][mode] = r
    except BaseException as e:  # noqa
        out["error"] = "%s: %s" % (type(e).__name__, e)
        out["traceback"] = traceback.format_exc()[-4000:]
    sys.stdout.write("\n" + json.dumps(out) + "\n")
    sys.stdout.flush()


if __name__ == "__main__":
    main()
