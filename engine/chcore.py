"""Engine A core: run one harness function under CrossHair (symbolic execution + z3).

A *harness* is a plain Python function with type-annotated parameters (the
symbolic inputs) that returns True when the property held on that input. It may
call `hlib.assume(cond)` to restrict the domain. Any exception escaping it and a
False/None return are counterexamples.

analyze(fn, mode) explores every path CrossHair can reach and returns a dict
with status CONFIRMED / REFUTED / UNKNOWN plus the counterexample arguments
(as eval-able reprs), path counts, solver query counts and solver seconds.
mode == "twin" replaces the postcondition by False: REFUTED means some path
reached the end of the harness (reachability witness).
"""
import collections
import inspect
import sys
import time
import typing

from crosshair.condition_parser import (ConditionExpr, ConditionExprType,
                                        Conditions)
from crosshair.core import analyze_calltree
from crosshair.condition_parser import condition_parser
import crosshair.core_and_libs  # noqa: registers the standard library models
from crosshair.options import DEFAULT_OPTIONS, AnalysisOptionSet, AnalysisKind
from crosshair.statespace import MessageType, VerificationStatus
import crosshair.statespace as _ss

from crosshair.tracers import COMPOSITE_TRACER, TracingModule

import os as _os
REPO_PREFIX = _os.environ.get("VERIF_REPO", "/repo").rstrip("/") + "/"


class CallRecorder(TracingModule):
    """Records which functions of the repository the symbolic run actually entered."""

    def __init__(self):
        self.seen = set()

    def trace_call(self, frame, fn, binding_target):
        code = getattr(fn, "__code__", None)
        if code is not None:
            f = code.co_filename
            if f.startswith(REPO_PREFIX):
                self.seen.add((f[len(REPO_PREFIX):], getattr(fn, "__qualname__", code.co_name)))
        return None


_solver_stats = {"checks": 0, "secs": 0.0, "unknown": 0}


def _wrap_solver():
    """Count z3 check() calls and time made by CrossHair's StateSpace."""
    import z3
    if getattr(z3.Solver, "_verif_wrapped", False):
        return
    orig = z3.Solver.check

    def check(self, *a, **kw):
        t = time.perf_counter()
        r = orig(self, *a, **kw)
        _solver_stats["checks"] += 1
        _solver_stats["secs"] += time.perf_counter() - t
        if str(r) == "unknown":
            _solver_stats["unknown"] += 1
        return r
    z3.Solver.check = check
    z3.Solver._verif_wrapped = True


def _fmt_args(captured):
    def maker(args, return_val, repr_overrides):
        d = {}
        for k, v in args.arguments.items():
            try:
                d[k] = repr(v)
            except Exception as e:  # pragma: no cover
                d[k] = "<unrepresentable %s>" % (e,)
        captured.append(d)
        call = "%s(%s)" % ("harness", ", ".join("%s=%s" % kv for kv in d.items()))
        return call, repr(return_val)
    return maker


class HangAbort(BaseException):
    """raised by the per-path CPU alarm inside the code under analysis (BaseException: the library's
    `except Exception` blocks must not swallow it)"""


def _guard(fn, mode, budget):
    """Per-path non-termination guard: a path that burns `budget` CPU-seconds without returning is ended; in main mode
    the harness then 'returns False', so the engine produces the path's concrete inputs, and the concrete replay (which
    has its own limit) decides whether the real code really does not return on them."""
    import functools
    import signal
    from crosshair.statespace import IgnoreAttempt
    from crosshair.tracers import NoTracing

    def on_alarm(signum, frame):
        _hang_stats["tripped"] = True
        if _os.environ.get("VERIF_DEBUG"):
            import sys as _sys
            _sys.stderr.write("[guard] alarm at %.1fs cpu in %s:%d\n" % (time.process_time(), frame.f_code.co_filename, frame.f_lineno))
        raise HangAbort()

    signal.signal(signal.SIGVTALRM, on_alarm)

    unknown_only = bool(_os.environ.get("VERIF_NO_HANG_GUARD"))

    def ended_by_budget():
        with NoTracing():
            signal.setitimer(signal.ITIMER_VIRTUAL, 0)
            _hang_stats["aborted_paths"] += 1
            if mode == "main" and not unknown_only:
                _hang_stats["last_aborted"] = True
        if mode == "main" and not unknown_only:
            return False
        if mode == "main":
            # second analysis of an obligation whose slow path returned normally in the concrete replay: the budget only
            # enforces the per-path time-out (the engine checks its own only at solver calls); the path stays unexplored
            from crosshair.util import UnexploredPath
            raise UnexploredPath("path exceeded the per-path CPU budget")
        raise IgnoreAttempt("path exceeded the per-path CPU budget")

    @functools.wraps(fn)
    def guarded(*a, **kw):
        with NoTracing():
            _hang_stats["last_aborted"] = False
            _hang_stats["tripped"] = False
            # (the alarm repeats every second: code under test with a bare `except:` may swallow the first one)
            signal.setitimer(signal.ITIMER_VIRTUAL, budget, 1.0)
        try:
            r = fn(*a, **kw)
        except HangAbort:
            return ended_by_budget()
        finally:
            with NoTracing():
                signal.setitimer(signal.ITIMER_VIRTUAL, 0)
        with NoTracing():
            tripped = _hang_stats["tripped"]
        if tripped:
            # the budget alarm fired and was swallowed by the code under test: whatever came back is not a verdict
            return ended_by_budget()
        return r
    return guarded


_hang_stats = {"aborted_paths": 0, "last_aborted": False, "tripped": False}


def analyze(fn, mode="main", timeout=60.0, per_path_timeout=None, max_iterations=None):
    _wrap_solver()
    _hang_stats["aborted_paths"] = 0
    _hang_stats["last_aborted"] = False
    raw_fn = fn
    if per_path_timeout:
        fn = _guard(raw_fn, mode, max(5.0, (1.0 if _os.environ.get("VERIF_NO_HANG_GUARD") else 0.8) * float(per_path_timeout)))
    for k in _solver_stats:
        _solver_stats[k] = 0 if k != "secs" else 0.0
    sig = inspect.signature(fn)
    hints = typing.get_type_hints(fn)
    sig = sig.replace(parameters=[p.replace(annotation=hints.get(p.name, p.annotation))
                                  for p in sig.parameters.values()],
                      return_annotation=hints.get("return", sig.return_annotation))
    fname = getattr(getattr(raw_fn, "__code__", None), "co_filename", "<harness>")
    line = getattr(getattr(raw_fn, "__code__", None), "co_firstlineno", 0)
    if mode == "twin":
        post = ConditionExpr(ConditionExprType.POSTCONDITION, lambda b: False, fname, line, "False (reachability twin)")
    else:
        post = ConditionExpr(ConditionExprType.POSTCONDITION, lambda b: b["__return__"] is True or bool(b["__return__"]),
                             fname, line, "harness returns True")
    captured = []
    conds = Conditions(fn, fn, [], [post], frozenset(), sig, None, [],
                       counterexample_description_maker=_fmt_args(captured))
    kw = dict(per_condition_timeout=float(timeout), analysis_kind=[AnalysisKind.PEP316])
    if per_path_timeout:
        kw["per_path_timeout"] = float(per_path_timeout)
    if max_iterations:
        kw["max_iterations"] = int(max_iterations)
    options = DEFAULT_OPTIONS.overlay(AnalysisOptionSet(**kw))
    options.stats = collections.Counter()
    options.deadline = time.process_time() + options.per_condition_timeout
    t0 = time.perf_counter()
    rec = CallRecorder()
    COMPOSITE_TRACER.push_module(rec)
    try:
        with condition_parser(options.analysis_kind):
            res = analyze_calltree(options, conds)
    finally:
        COMPOSITE_TRACER.pop_config(rec)
    wall = time.perf_counter() - t0
    status = res.verification_status
    out = {
        "status": {VerificationStatus.CONFIRMED: "CONFIRMED", VerificationStatus.REFUTED: "REFUTED",
                   VerificationStatus.UNKNOWN: "UNKNOWN"}[status],
        "paths": int(options.stats.get("num_paths", 0)),
        "confirmed_paths": res.num_confirmed_paths,
        "solver_checks": _solver_stats["checks"],
        "solver_secs": round(_solver_stats["secs"], 4),
        "solver_unknown": _solver_stats["unknown"],
        "wall_s": round(wall, 3),
        "functions": sorted("%s:%s" % x for x in rec.seen),
        "messages": [],
        "args": None,
        "aborted_paths": _hang_stats["aborted_paths"],
    }
    for m in res.messages:
        out["messages"].append({"type": m.state.name, "message": m.message[:2000],
                                "tb": (m.traceback or "")[-1500:]})
    if status == VerificationStatus.REFUTED:
        if _hang_stats["last_aborted"]:
            out["hang_candidate"] = True    # the refuting path is one that was ended by the per-path CPU budget
        if captured:
            out["args"] = captured[-1]
        else:
            # e.g. PRE_UNSAT or NotDeterministic: not a usable counterexample
            out["status"] = "UNKNOWN"
            out["note"] = "refuted without counterexample arguments"
    return out
