"""C04 -- server executes data-access requests as a Modbus register file (valid requests).
C05 shares the step harness (see harness/c05.py): one inductive step from an arbitrary table state.

step.fc<N>[shape].zm=<bool>[.shared]:
  pre-state: the table the function code addresses is a sequential block with symbolic start, symbolic
  length 1..N and symbolic contents; the other three tables are fixed decoys (must stay untouched);
  request = symbolic body bytes decoded by the real ServerDecoder, executed by the real execute();
  asserted: response PDU == reference model's PDU, and all four tables == model's post-state.
"""
from typing import List

from engine.hlib import assume, same, explain, known
from engine.obl import Obl
from spec import regfile

LEVEL = "model_checking"
EXPLANATION = ("One symbolic step of the request -> decode -> execute -> datastore path from an arbitrary table state, "
               "compared with a reference register-file model written from the spec; arbitrary request histories follow by "
               "induction over states of this shape (argument on paper).")
ASSUMPTIONS = ["tables are ModbusSequentialDataBlock with 1..N cells (N=4 quick, 6 thorough) at any start address; registers hold 0..65535, bit tables hold bools",
               "remote/SQL/redis datastores are outside the claim",
               "that every front-end and framer hands the decoded request to execute() unchanged is C09/C17's subject"]

BODYLEN = {1: 4, 2: 4, 3: 4, 4: 4, 5: 4, 6: 4, 22: 6}


def body_len(fc, shape):
    if fc == 15:
        return 5 + shape
    if fc == 16:
        return 5 + 2 * shape
    if fc == 23:
        return 9 + 2 * shape
    return BODYLEN[fc]


def _block(start, vals):
    from pymodbus.datastore.store import ModbusSequentialDataBlock
    blk = ModbusSequentialDataBlock(start, [0])
    blk.values = vals
    return blk


def make_step(fc, shape, zero_mode, N, want_exception, shared=False):
    L = body_len(fc, shape)
    if fc == 15 and shape and shape > 1:
        N = max(N, 8 * (shape - 1) + 2)      # a valid request with `shape` data bytes needs that many coils
    t = regfile.TABLE[fc]
    isbits = t in "cd"

    def run(start, vals, b):
        from pymodbus.factory import ServerDecoder
        from pymodbus.datastore import ModbusSlaveContext
        assume(0 <= start <= 65600)
        assume(1 <= len(vals) <= N)
        assume(len(b) == L)
        if not isbits:
            for v in vals:
                assume(0 <= v <= 65535)
        code = regfile.verdict(fc, b, (start, vals), zero_mode)
        assume((code != 0) == want_exception)
        exp_pdu, exp_vals = regfile.model(fc, b, (start, list(vals)), zero_mode)
        # listed known findings (regions are stated on the request bytes)
        if fc == 5:
            w = regfile.u16(b, 2)
            known("KF-coil-value-unchecked", not ((w == 0) or (w == 0xFF00)))
        if fc == 15:
            known("KF-coils-quantity-vs-data", _coils_short(b))
        if fc in (16, 23):
            known("KF-write-registers-short-data", _regs_short(fc, b))
        blocks, snap = {}, {}
        for k in "dcih":
            if k == t:
                blocks[k] = _block(start, list(vals))
            elif shared and (k in "hi") and (t in "hi"):
                blocks[k] = blocks[t] if t in blocks else None
            else:
                blocks[k] = _block(0, [7, 7, 7])
        if shared:
            other = "i" if t == "h" else "h"
            blocks[other] = blocks[t]
        for k in "dcih":
            snap[k] = list(blocks[k].values)
        ctx = ModbusSlaveContext(di=blocks["d"], co=blocks["c"], ir=blocks["i"], hr=blocks["h"], zero_mode=zero_mode)
        req = ServerDecoder().decode(bytes([fc]) + b)
        if req is None:
            explain("decoder rejected the request")
            return False
        resp = req.execute(ctx)
        got_pdu = bytes([resp.function_code]) + resp.encode()
        if not same(got_pdu, exp_pdu, "response PDU"):
            return False
        for k in "dcih":
            after = list(blocks[k].values)
            want = exp_vals if blocks[k] is blocks[t] else snap[k]
            if len(after) != len(want):
                explain("table %s changed size", k)
                return False
            for i in range(len(want)):
                if after[i] != want[i]:
                    explain("table %s cell %d: got %r expected %r", k, i, after[i], want[i])
                    return False
            if blocks[k].address != (start if blocks[k] is blocks[t] else 0):
                return False
        return True

    if isbits:
        def step(start: int, vals: List[bool], b: bytes) -> bool:
            return run(start, vals, b)
    else:
        def step(start: int, vals: List[int], b: bytes) -> bool:
            return run(start, vals, b)
    return step


def make_defaults(fc, given):
    """ModbusSlaveContext built with only ONE table supplied (`given`), the others created by the constructor's defaults:
    a write through fc must change its own (default) table only -- the default tables must be separate objects"""
    t = regfile.TABLE[fc]
    L = body_len(fc, 1)

    def defaults(b: bytes) -> bool:
        from pymodbus.factory import ServerDecoder
        from pymodbus.datastore import ModbusSlaveContext
        assume(len(b) == L)
        assume(b[0] == 0)
        assume(b[1] < 3)                      # low addresses (a symbolic index into a 65536-cell list is only enumerated)
        if fc in (15, 16):
            assume(regfile.u16(b, 2) == 1)
        if fc == 23:
            assume(b[4] == 0)
            assume(b[5] < 3)
            assume(regfile.u16(b, 2) == 1)
            assume(regfile.u16(b, 6) == 1)
        from pymodbus.datastore.store import ModbusSequentialDataBlock
        orig_create = ModbusSequentialDataBlock.__dict__["create"]
        # default tables of 64 cells instead of 65536 (same constructor path; only the size of what create() returns)
        ModbusSequentialDataBlock.create = classmethod(lambda klass: klass(0x00, [0x00] * 64))
        try:
            ctx = ModbusSlaveContext(**{given: _block(0, [9, 9, 9, 9])})
        finally:
            ModbusSequentialDataBlock.create = orig_create
        names = {"d": "di", "c": "co", "i": "ir", "h": "hr"}
        code = regfile.verdict(fc, b, (0, [0] * 64), False)
        assume(code == 0)
        req = ServerDecoder().decode(bytes([fc]) + b)
        resp = req.execute(ctx)
        if resp.function_code >= 0x80:
            explain("valid request answered with exception %r", resp.exception_code)
            return False
        for k in "dcih":
            if k == t:
                continue
            vals = ctx.store[k].values
            want = [9, 9, 9, 9] if names[k] == given else None
            if want is not None:
                if list(vals) != want:
                    explain("supplied table %s changed", k)
                    return False
            else:
                for i in range(6):
                    if vals[i] != 0:
                        explain("default table %s changed at cell %d by a write through fc %d", k, i, fc)
                        return False
        return True
    return defaults


def make_samelist(fc):
    """four tables built by the REAL block constructor from one and the same list object (a template the application
    reuses): the blocks are still four stores -- a write through fc changes its own table only, and not the template"""
    L = body_len(fc, 1)
    t = regfile.TABLE[fc]

    def samelist(b: bytes) -> bool:
        from pymodbus.factory import ServerDecoder
        from pymodbus.datastore import ModbusSlaveContext
        from pymodbus.datastore.store import ModbusSequentialDataBlock
        assume(len(b) == L)
        init = [0, 1, 0, 1]
        assume(b[0] == 0)
        assume(b[1] < 3)
        if fc in (15, 16):
            assume(regfile.u16(b, 2) == 1)
        template = list(init)
        blocks = {k: ModbusSequentialDataBlock(0, template) for k in "dcih"}
        ctx = ModbusSlaveContext(di=blocks["d"], co=blocks["c"], ir=blocks["i"], hr=blocks["h"], zero_mode=True)
        assume(regfile.verdict(fc, b, (0, list(init)), True) == 0)
        req = ServerDecoder().decode(bytes([fc]) + b)
        resp = req.execute(ctx)
        if resp.function_code >= 0x80:
            explain("valid request answered with exception %r", resp.exception_code)
            return False
        if list(template) != list(init):
            explain("the caller's template list was changed by a write to a table built from it")
            return False
        for k in "dcih":
            if k != t and list(blocks[k].values) != list(init):
                explain("table %s changed by a write to table %s (both built from the same list)", k, t)
                return False
        return True
    return samelist


SPARSE_KEYS = [0, 1, 2, 3, 6, 7]       # a sparse table with a hole at 4..5 (and four contiguous cells before it)


def make_sparse(fc, want_exception, shape=1):
    """the addressed table is a ModbusSparseDataBlock with a hole; model: a range is valid iff every cell exists"""
    L = body_len(fc, shape)

    def sparse(v: List[int], b: bytes) -> bool:
        from pymodbus.factory import ServerDecoder
        from pymodbus.datastore import ModbusSlaveContext, ModbusSparseDataBlock
        assume(len(v) == len(SPARSE_KEYS) and len(b) == L)
        for x in v:
            assume(0 <= x <= 65535)
        assume(b[0] == 0)
        assume(b[1] <= 8)
        qty = regfile.u16(b, 2)
        addr = b[1]
        blk = ModbusSparseDataBlock({0: 0})
        blk.values = dict(zip(SPARSE_KEYS, v))
        blk.address = 0
        ctx = ModbusSlaveContext(di=_block(0, [False]), co=_block(0, [False]), ir=_block(0, [7]), hr=blk, zero_mode=True)
        # reference verdict: quantity limits first, then every addressed cell must exist
        if fc == 3:
            if not (1 <= qty <= 125):
                code = 3
            else:
                assume(qty <= 8)
                code = 0 if all((addr + i) in SPARSE_KEYS for i in range(qty)) else 2
        else:
            bc = b[4]
            known("KF-write-registers-short-data", _regs_short(16, b))
            if not (1 <= qty <= 123) or bc != 2 * qty or len(b) < 5 + bc:
                code = 3
            else:
                code = 0 if all((addr + i) in SPARSE_KEYS for i in range(qty)) else 2
        assume((code != 0) == want_exception)
        before = dict(blk.values)
        req = ServerDecoder().decode(bytes([fc]) + b)
        try:
            resp = req.execute(ctx)
        except Exception as e:
            explain("execute raised %s on a sparse table", type(e).__name__)
            return False
        got = bytes([resp.function_code]) + resp.encode()
        if code != 0:
            if not same(got, regfile.exc(fc, code), "exception response"):
                return False
            return same(dict(blk.values), before, "sparse table after a rejected request")
        if fc == 3:
            exp = bytes([3, 2 * qty])
            for i in range(qty):
                exp = exp + regfile.be16(before[addr + i])
            return same(got, exp, "read response") and same(dict(blk.values), before, "sparse table after a read")
        after = dict(before)
        for i in range(qty):
            after[addr + i] = regfile.u16(b, 5 + 2 * i)
        return same(got, bytes([16]) + b[0:4], "write response") and same(dict(blk.values), after, "sparse table after the write")
    return sparse


def _maskwrite_differs(vals, start, b, zero_mode):
    """region of KF-maskwrite-formula: (or_mask AND and_mask) != 0 -- exactly where (cur&and)|or differs
    from (cur&and)|(or&~and) for some current value"""
    from engine.hlib import bitand16
    return bitand16(regfile.u16(b, 2), regfile.u16(b, 4)) != 0


def _coils_short(b):
    """region of KF-coils-quantity-vs-data: quantity field larger than the bits actually carried"""
    return regfile.u16(b, 2) > 8 * (len(b) - 5)


def _regs_short(fc, b):
    """region of KF-write-registers-short-data: more register data promised than carried"""
    if fc == 16:
        return 2 * regfile.u16(b, 2) > len(b) - 5
    return b[8] > len(b) - 9


SHAPES = {15: [1, 2], 16: [1, 2], 23: [1, 2]}
FINDINGS = {16: ("KF-write-registers-short-data",), 23: ("KF-write-registers-short-data",), 5: ("KF-coil-value-unchecked",), 15: ("KF-coils-quantity-vs-data",)}


def step_obligations(tier, want_exception, prefix):
    N = 4 if tier == "quick" else 6
    T = 120 if tier == "quick" else 900
    out = []
    for fc in (1, 2, 3, 4, 5, 6, 15, 16, 22, 23):
        shapes = SHAPES.get(fc, [None])
        if tier != "quick" and fc in SHAPES:
            shapes = shapes + [3]
        for shape in shapes:
            for zm in (False, True):
                if tier == "quick" and zm and fc not in (1, 6, 16, 23):
                    continue
                contracts = ("bits",) if fc in (1, 2, 15) else ()
                name = "%s.fc%d%s.zm=%s" % (prefix, fc, "" if shape is None else "[%d]" % shape, zm)
                bounds = ("fc %d%s, zero_mode=%s: addressed table start 0..65600, 1..%d cells, contents symbolic; "
                          "all %d request body bytes symbolic; %s requests only") % (
                    fc, "" if shape is None else " with %d data byte(s)/register(s)" % shape, zm, N, body_len(fc, shape),
                    "invalid (model answers an exception)" if want_exception else "valid (model answers normally)")
                out.append(Obl(name, make_step(fc, shape, zm, N, want_exception), bounds=bounds, timeout=T,
                               contracts=contracts, lemmas=("K3",) if contracts else (), findings=FINDINGS.get(fc, ())))
    if not want_exception:
        for fc in (4, 6, 16, 22, 23):
            shape = SHAPES.get(fc, [None])[0]
            name = "%s.fc%d%s.shared_hr_ir" % (prefix, fc, "" if shape is None else "[%d]" % shape)
            out.append(Obl(name, make_step(fc, shape, False, N, want_exception, shared=True), timeout=T,
                           bounds="holding and input registers are one shared block; otherwise as the step obligations",
                           findings=FINDINGS.get(fc, ())))
    return out


def extra_obligations(tier, want_exception, prefix):
    T = 120 if tier == "quick" else 900
    out = []
    for fc, shape in ((3, 1), (16, 1), (16, 4)):
        # (a 4-register write can span the hole with both of its end cells present)
        out.append(Obl("%s.sparse.fc%d%s" % (prefix, fc, "" if shape == 1 else "[%d]" % shape), make_sparse(fc, want_exception, shape), timeout=T,
                       bounds="holding registers = sparse block with cells %s (hole at 4..5), symbolic contents; fc %d%s, address 0..8, quantity symbolic; %s requests" % (
                           SPARSE_KEYS, fc, "" if fc == 3 else " carrying %d register(s)" % shape, "rejected" if want_exception else "valid")))
    return out


def obligations(tier):
    from harness import kernels
    T = 120 if tier == "quick" else 900
    out = [kernels.K3(tier)] + step_obligations(tier, False, "step") + extra_obligations(tier, False, "step")
    combos = [(6, "co"), (16, "di"), (5, "hr")] if tier == "quick" else [(6, "co"), (16, "di"), (5, "hr"), (15, "ir"), (22, "co"), (23, "di")]
    for fc in ((6, 5) if tier == "quick" else (5, 6, 15, 16, 22)):
        out.append(Obl("samelist.fc%d" % fc, make_samelist(fc), timeout=T, contracts=("bits",) if fc == 15 else (),
                       bounds="four sequential blocks constructed from one list object ([0, 1, 0, 1]); fc %d write at address 0..2: the other tables and the caller's list unchanged" % fc))
    for fc, given in combos:
        out.append(Obl("defaults.fc%d.only-%s-supplied" % (fc, given), make_defaults(fc, given), timeout=T,
                       contracts=("bits",) if fc == 15 else (),
                       bounds="slave context constructed with only the '%s' table supplied (the others come from the constructor's defaults; create() shortened to 64 cells); fc %d write at address 0..2 with symbolic value: every other table unchanged" % (given, fc)))
    return out
