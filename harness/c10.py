"""C10 -- requests act only on the addressed unit; broadcast acts on all.

route.<frontend>.<framing>.im=<bool>.bc=<bool>: a server hosting two unit contexts with SYMBOLIC distinct ids u1, u2
(0..255) receives one write request (FC 6, symbolic address/value/transaction id) addressed to a symbolic unit id
a (0..255). Asserted:
  a hosted              -> exactly that unit's registers change as the reference model prescribes, the other unit is
                           untouched, the reference response is sent;
  broadcast on, a == 0  -> the write is applied exactly once to BOTH hosted units, nothing is sent;
  a not hosted          -> nothing changes anywhere; either nothing is sent or a gateway exception (0x0A / 0x0B) with
                           fc | 0x80 (nothing at all when ignore_missing_slaves is set).
alias.<frontend>: a broadcast write covering a whole table followed by a unicast write: the units remain separate stores.
single.<frontend>: in single-context mode every unit id 0..255 reaches the one context.
"""
from engine.hlib import assume, same, explain, known
from engine.obl import Obl
from spec import adu, regfile
from harness import serverlib as SL
from harness.c09 import CONTRACTS, LEMMAS

LEVEL = "model_checking"
EXPLANATION = ("Bounded symbolic model checking of unit filtering (_validate_unit_id), context lookup, the broadcast branch and the "
               "missing-unit handling of every front-end with symbolic hosted and addressed unit ids.")
ASSUMPTIONS = ["two hosted units (symbolic ids) with 4-register tables; one FC 6 request per obligation; flags enumerated per obligation",
               "front-ends driven as in C09 (fake sockets/transports, queue-only event loop)"]


def make_route(frontend, framing, im, bc):
    def route(t: bytes, ids: bytes, b1: bytes, st: bytes) -> bool:
        assume(len(t) == 2 and len(ids) == 3 and len(b1) == 4 and len(st) == 16)
        u1, u2, a = ids[0], ids[1], ids[2]
        assume(u1 != u2)               # hosted ids anywhere in 0..255 (a context built from a dict may host 248..255 too)
        regsA = [st[2 * i] * 256 + st[2 * i + 1] for i in range(4)]
        regsB = [st[8 + 2 * i] * 256 + st[9 + 2 * i] for i in range(4)]
        sA, sB = SL.small_context(hr=regsA), SL.small_context(hr=regsB)
        ctx = SL.server_context(None, single=False, units=[(u1, sA), (u2, sB)])
        frame = adu.ref_adu_clean(framing, bytes([6]) + b1, a, t)
        r = SL.drive(frontend, framing, ctx, [frame], ignore_missing=im, broadcast=bc)
        if r.escaped is not None or r.twisted_dropped is not None:
            explain("exception escaped the front-end: %r", r.escaped or r.twisted_dropped)
            return False
        afterA, afterB = list(sA.store["h"].values), list(sB.store["h"].values)
        if bc and a == 0:
            pduA, expA = regfile.model(6, b1, (0, list(regsA)), True)
            pduB, expB = regfile.model(6, b1, (0, list(regsB)), True)
            if len(r.written) != 0:
                explain("broadcast request answered with %r", r.written)
                return False
            return same(afterA, expA, "unit u1 after broadcast") and same(afterB, expB, "unit u2 after broadcast")
        if a == u1 or a == u2:
            mine, other = (regsA, regsB) if a == u1 else (regsB, regsA)
            got_mine, got_other = (afterA, afterB) if a == u1 else (afterB, afterA)
            pdu, exp = regfile.model(6, b1, (0, list(mine)), True)
            if not same(got_mine, exp, "addressed unit") or not same(got_other, list(other), "other unit"):
                return False
            return len(r.written) == 1 and same(r.written[0], adu.ref_adu_clean(framing, pdu, a, t), "response")
        # not hosted
        if not same(afterA, list(regsA), "unit u1 (request for an absent unit)") or not same(afterB, list(regsB), "unit u2"):
            return False
        if len(r.written) == 0:
            return True
        if im:
            explain("ignore_missing_slaves set but %r was sent", r.written)
            return False
        ok = len(r.written) == 1 and ((r.written[0] == adu.ref_adu_clean(framing, bytes([0x86, 0x0B]), a, t)) or
                                      (r.written[0] == adu.ref_adu_clean(framing, bytes([0x86, 0x0A]), a, t)))
        if not ok:
            explain("absent unit answered with %r", r.written)
        return ok
    return route


def make_alias(frontend, framing):
    """two requests in a row: a BROADCAST write of a whole table (FC 16, all 4 registers), then a write to one unit:
    afterwards the units are still separate stores (the second write is seen by the addressed unit only)"""
    def alias(t: bytes, ids: bytes, w: bytes, b2: bytes, st: bytes) -> bool:
        assume(len(t) == 4 and len(ids) == 2 and len(w) == 8 and len(b2) == 4 and len(st) == 16)
        u1, u2 = ids[0], ids[1]
        assume(u1 != u2)
        assume(u1 != 0)
        assume(u2 != 0)
        regsA = [st[2 * i] * 256 + st[2 * i + 1] for i in range(4)]
        regsB = [st[8 + 2 * i] * 256 + st[9 + 2 * i] for i in range(4)]
        sA, sB = SL.small_context(hr=regsA), SL.small_context(hr=regsB)
        ctx = SL.server_context(None, single=False, units=[(u1, sA), (u2, sB)])
        b1 = bytes([0, 0, 0, 4, 8]) + w
        f1 = adu.ref_adu_clean(framing, bytes([16]) + b1, 0, t[0:2])
        f2 = adu.ref_adu_clean(framing, bytes([6]) + b2, u1, t[2:4])
        r = SL.drive(frontend, framing, ctx, [f1, f2], ignore_missing=False, broadcast=True)
        if r.escaped is not None or r.twisted_dropped is not None:
            explain("exception escaped the front-end: %r", r.escaped or r.twisted_dropped)
            return False
        midA = regfile.model(16, b1, (0, list(regsA)), True)[1]
        midB = regfile.model(16, b1, (0, list(regsB)), True)[1]
        pdu2, expA = regfile.model(6, b2, (0, list(midA)), True)
        if not same(list(sA.store["h"].values), expA, "addressed unit after broadcast + write"):
            return False
        if not same(list(sB.store["h"].values), midB, "other unit after broadcast + a write to its neighbour"):
            return False
        return len(r.written) == 1 and same(r.written[0], adu.ref_adu_clean(framing, pdu2, u1, t[2:4]), "response to the unicast write")
    return alias


def make_single(frontend, framing):
    def single(t: bytes, a: int, b1: bytes, st: bytes) -> bool:
        assume(len(t) == 2 and len(b1) == 4 and len(st) == 8)
        assume(0 <= a <= 255)
        regs = [st[2 * i] * 256 + st[2 * i + 1] for i in range(4)]
        s = SL.small_context(hr=regs)
        ctx = SL.server_context(s, single=True)
        r = SL.drive(frontend, framing, ctx, [adu.ref_adu_clean(framing, bytes([6]) + b1, a, t)])
        if r.escaped is not None or r.twisted_dropped is not None:
            return False
        pdu, exp = regfile.model(6, b1, (0, list(regs)), True)
        return same(list(s.store["h"].values), exp, "the only context") and len(r.written) == 1 and \
            same(r.written[0], adu.ref_adu_clean(framing, pdu, a, t), "response")
    return single


def make_config(which):
    """the real server classes' constructors (socket binding stubbed out) must carry ignore_missing_slaves and
    broadcast_enable through to the attributes the handlers read"""
    def config(im: bool, bc: bool) -> bool:
        import socketserver
        from pymodbus.datastore import ModbusServerContext
        ctx = ModbusServerContext(slaves=SL.small_context(), single=True)
        if which in ("sync.ModbusTcpServer", "sync.ModbusUdpServer"):
            import pymodbus.server.sync as S
            base = socketserver.ThreadingTCPServer if which.endswith("TcpServer") else socketserver.ThreadingUDPServer
            orig = base.__init__
            base.__init__ = lambda self, *a, **k: None        # no socket is created (environment)
            try:
                srv = getattr(S, which.split(".")[1])(ctx, ignore_missing_slaves=im, broadcast_enable=bc)
            finally:
                base.__init__ = orig
        elif which == "sync.ModbusSerialServer":
            import pymodbus.server.sync as S
            orig = S.ModbusSerialServer._connect
            S.ModbusSerialServer._connect = lambda self: False
            try:
                srv = S.ModbusSerialServer(ctx, ignore_missing_slaves=im, broadcast_enable=bc)
            finally:
                S.ModbusSerialServer._connect = orig
        elif which.startswith("asyncio"):
            import pymodbus.server.async_io as A

            class L(object):
                def create_future(self):
                    return None

                def create_server(self, *a, **k):
                    return None

                def create_datagram_endpoint(self, *a, **k):
                    return None
            srv = getattr(A, which.split(".")[1])(ctx, loop=L(), ignore_missing_slaves=im, broadcast_enable=bc)
        else:
            import pymodbus.server.asynchronous as T
            if which == "twisted.ModbusServerFactory":
                srv = T.ModbusServerFactory(ctx, ignore_missing_slaves=im)
            else:
                srv = T.ModbusUdpProtocol(ctx, ignore_missing_slaves=im)
            return srv.ignore_missing_slaves == im
        return srv.ignore_missing_slaves == im and srv.broadcast_enable == bc
    return config


def obligations(tier):
    from harness import kernels
    T = 300 if tier == "quick" else 1200
    out = [kernels.K1(tier), kernels.K2(tier)]
    for fe in SL.FRONTENDS:
        framings = ["rtu"] if fe == "sync-serial" else ["tcp"]
        if tier != "quick":
            if fe == "sync-serial":
                framings = ["rtu", "ascii", "binary"]
            elif fe in ("sync-tcp", "twisted-tcp"):
                framings = ["tcp", "rtu"]
        for fr in framings:
            combos = [(False, False), (True, False)]
            if fe.startswith(("sync", "asyncio")):
                combos += [(False, True)] if tier == "quick" else [(False, True), (True, True)]
            for im, bc in combos:
                out.append(Obl("route.%s.%s.im=%s.bc=%s" % (fe, fr, im, bc), make_route(fe, fr, im, bc), timeout=T,
                               contracts=CONTRACTS[fr], lemmas=LEMMAS[fr],
                               bounds="%s / %s: hosted unit ids u1 != u2 in 0..255 and addressed unit 0..255 symbolic; FC6 body, tid, both 4-register tables symbolic; ignore_missing_slaves=%s broadcast_enable=%s" % (fe, fr, im, bc)))
            out.append(Obl("single.%s.%s" % (fe, fr), make_single(fe, fr), timeout=T, contracts=CONTRACTS[fr], lemmas=LEMMAS[fr],
                           bounds="%s / %s single-context mode: addressed unit 0..255 symbolic" % (fe, fr)))
    for fe in (("sync-tcp",) if tier == "quick" else ("sync-tcp", "sync-udp", "sync-serial", "asyncio-tcp", "asyncio-udp")):
        fr = "rtu" if fe == "sync-serial" else "tcp"
        out.append(Obl("alias.%s.%s" % (fe, fr), make_alias(fe, fr), timeout=T, contracts=CONTRACTS[fr], lemmas=LEMMAS[fr],
                       bounds="%s / %s, broadcast enabled: broadcast FC16 over the whole 4-register table (symbolic data), then FC6 (symbolic address/value) to one of two hosted units (symbolic ids): units stay separate stores" % (fe, fr)))
    for which in ("sync.ModbusTcpServer", "sync.ModbusUdpServer", "sync.ModbusSerialServer", "asyncio.ModbusTcpServer",
                  "asyncio.ModbusUdpServer", "twisted.ModbusServerFactory", "twisted.ModbusUdpProtocol"):
        out.append(Obl("config.%s" % which, make_config(which), timeout=T,
                       bounds="constructor of %s with symbolic ignore_missing_slaves / broadcast_enable (socket creation stubbed): the attributes read by the handlers carry those values" % which))
    return out
