"""Runner: decide one property.

usage: python -m engine.runner <PROPERTY-ID> <quick|thorough> [--only substr] [--jobs N]

Exit codes: 0 = no unlisted violation replayed; 1 = VIOLATION (printed with replay path);
2 = harness error (a counterexample that does not reproduce on the real code = model mismatch,
or a worker crash) -- never reported as a violation.
"""
import concurrent.futures as cf
import importlib
import json
import os
import subprocess
import sys
import time

ROOT = os.path.dirname(os.path.dirname(os.path.abspath(__file__)))
sys.path.insert(0, ROOT)
PY = os.path.join(ROOT, ".venv", "bin", "python")
PLAIN_PY = PY  # same interpreter, but engine.replay never imports crosshair or the plugin

PROPS = {}


def load_properties():
    with open(os.path.join(ROOT, "properties.jsonl")) as f:
        for line in f:
            if line.strip():
                p = json.loads(line)
                PROPS[p["id"]] = p


def run_worker(module, tier, o, modes, hard_timeout, extra_env=None):
    cmd = [PY, "-m", "engine.worker", module, tier, o.name, ",".join(modes)]
    t0 = time.time()
    env = dict(os.environ)
    env.update(extra_env or {})
    try:
        p = subprocess.run(cmd, cwd=ROOT, capture_output=True, text=True, timeout=hard_timeout, env=env)
    except subprocess.TimeoutExpired:
        return {"obligation": o.name, "results": {m: {"status": "UNKNOWN", "note": "hard wall-clock timeout %ds" % hard_timeout,
                                                     "paths": 0, "solver_checks": 0, "solver_secs": 0.0, "wall_s": hard_timeout}
                                                  for m in modes}}
    lines = [l for l in p.stdout.strip().splitlines() if l.startswith("{")]
    if not lines:
        return {"obligation": o.name, "error": "worker produced no result (rc=%s): %s" % (p.returncode, (p.stderr or "")[-2000:]),
                "results": {}}
    r = json.loads(lines[-1])
    r["worker_wall_s"] = round(time.time() - t0, 2)
    return r


def do_replay(pid, module, tier, o, witness, args, suffix=""):
    os.makedirs(os.path.join(ROOT, "replays", pid), exist_ok=True)
    safe = o.name.replace("/", "_").replace(" ", "_")
    if witness:
        safe += "@" + witness
    path = os.path.join(ROOT, "replays", pid, safe + suffix + ".json")
    spec = {"property": pid, "module": module, "tier": tier, "obligation": o.name, "witness": witness, "args": args}
    with open(path, "w") as f:
        json.dump(spec, f, indent=1)
    try:
        p = subprocess.run([PLAIN_PY, "-m", "engine.replay", path], cwd=ROOT, capture_output=True, text=True, timeout=300)
    except subprocess.TimeoutExpired:
        return path, "timeout", "replay exceeded 300 s"
    out = [l for l in p.stdout.strip().splitlines() if l.startswith("{")]
    if not out:
        return path, "error", (p.stderr or p.stdout)[-1500:]
    r = json.loads(out[-1])
    spec["replay_outcome"] = r["outcome"]
    spec["observed"] = r["observed"]
    with open(path, "w") as f:
        json.dump(spec, f, indent=1)
    return path, r["outcome"], r["observed"]


def process(pid, module, tier, o, findings_db):
    """Run one obligation end to end: main+twin, witness obligations, replays."""
    rec = {"name": o.name, "kind": o.kind, "bounds": o.bounds, "outside": o.outside, "contracts": list(o.contracts),
           "lemmas": list(o.lemmas), "timeout_s": o.timeout}
    hard = int(o.timeout * 2.5 + 90)
    active = [f for f in o.findings if f in findings_db]
    if o.kind == "smt":
        w = run_worker(module, tier, o, ["main"], hard)
    else:
        w = run_worker(module, tier, o, ["main", "twin"] if o.twin else ["main"], hard)
    rec["replays"] = 0
    events = []
    if "error" in w:
        rec["status"] = "ERROR"
        rec["error"] = w["error"]
        rec["traceback"] = w.get("traceback", "")
        return rec, [("HARNESS-ERROR", o.name, w["error"])]
    rec["stubs_and_models"] = w.get("stubs_and_models")
    main = w["results"].get("main", {})
    rec.update({k: main.get(k) for k in ("status", "paths", "confirmed_paths", "solver_checks", "solver_secs",
                                         "solver_unknown", "wall_s", "functions", "queries", "detail", "note") if k in main})
    if o.kind == "smt":
        rec["functions"] = list(o.functions)
        rec["paths"] = main.get("queries", 0)
        rec["solver_checks"] = main.get("queries", 0)
        if main.get("status") == "REFUTED":
            path, outcome, observed = do_replay(pid, module, tier, o, None, main.get("cex"))
            rec["replays"] += 1
            rec["counterexample"] = main.get("cex")
            rec["replay"] = {"path": path, "outcome": outcome, "observed": observed[:1500]}
            if outcome == "fails":
                events.append(("VIOLATION", o.name, path))
            else:
                rec["status"] = "MODEL-MISMATCH"
                events.append(("HARNESS-ERROR", o.name, "SMT counterexample does not reproduce on the real function"))
        return rec, events
    # ---- Engine A
    if main.get("status") == "REFUTED" and main.get("hang_candidate"):
        # a path was ended by the per-path CPU budget: only a concrete replay that does not return either is a violation
        path, outcome, observed = do_replay(pid, module, tier, o, None, main["args"])
        rec["replays"] += 1
        if outcome == "fails":
            # the concrete inputs of the aborted path do fail (by not returning, or for an ordinary reason): handled as any
            # other counterexample below (listed findings included)
            rec["cex_message"] = "path ended by the per-path CPU budget"
            main = dict(main, hang_candidate=False)
        else:
            # merely slow under the engine: analyse again without the guard (other paths may still hold a counterexample)
            w = run_worker(module, tier, o, ["main", "twin"] if o.twin else ["main"], hard, {"VERIF_NO_HANG_GUARD": "1"})
            if "error" in w:
                rec["status"] = "ERROR"
                rec["error"] = w["error"]
                return rec, [("HARNESS-ERROR", o.name, w["error"])]
            main = w["results"].get("main", {})
            rec.update({k: main.get(k) for k in ("status", "paths", "confirmed_paths", "solver_checks", "solver_secs",
                                                 "solver_unknown", "wall_s", "functions", "note") if k in main})
            rec["note"] = ((rec.get("note") or "") + " a path exceeded the per-path CPU budget; its concrete inputs return normally on the real code").strip()
    if main.get("status") == "REFUTED":
        path, outcome, observed = do_replay(pid, module, tier, o, None, main["args"])
        rec["replays"] += 1
        rec["counterexample"] = main["args"]
        rec["cex_message"] = (main.get("messages") or [{}])[0].get("message", "")[:600]
        rec["replay"] = {"path": path, "outcome": outcome, "observed": observed[:1500]}
        if outcome == "fails" and o.whole_finding and o.whole_finding in findings_db:
            # the whole obligation lies inside a listed known finding: reported as such, not as a violation
            rec["status"] = "KNOWN-FINDING"
            rec["known_findings"] = [{"id": o.whole_finding, "reproduced": True, "witness": main["args"], "observed": observed[:400]}]
            events.append(("KNOWN-FINDING", o.whole_finding, findings_db[o.whole_finding]["what"]))
            return rec, events
        if outcome == "fails":
            events.append(("VIOLATION", o.name, path))
        elif "crc" in o.contracts:
            # abstraction refinement: under the uninterpreted CRC the solver may pick checksum bytes no real frame has;
            # analyse again with the exact bit-vector CRC (sound either way: the uninterpreted function over-approximates)
            w2 = run_worker(module, tier, o, ["main"], hard, {"VERIF_CRC_EXACT": "1"})
            m2 = w2.get("results", {}).get("main", {})
            rec["refinement"] = {"reason": "counterexample under the uninterpreted CRC did not reproduce", "status": m2.get("status"),
                                 "paths": m2.get("paths"), "solver_checks": m2.get("solver_checks"), "wall_s": m2.get("wall_s")}
            rec.pop("counterexample", None)
            rec.pop("replay", None)
            if m2.get("status") == "REFUTED" and m2.get("args"):
                path, outcome, observed = do_replay(pid, module, tier, o, None, m2["args"])
                rec["replays"] += 1
                rec["counterexample"] = m2["args"]
                rec["replay"] = {"path": path, "outcome": outcome, "observed": observed[:1500]}
                if outcome == "fails":
                    rec["status"] = "REFUTED"
                    events.append(("VIOLATION", o.name, path))
                else:
                    rec["status"] = "MODEL-MISMATCH"
                    events.append(("HARNESS-ERROR", o.name, "counterexample %s (exact CRC) does not reproduce on the real code (%s)" % (str(m2["args"])[:300], outcome)))
            elif m2.get("status") == "CONFIRMED":
                rec["status"] = "CONFIRMED"
                rec["note"] = "confirmed with the exact bit-vector CRC after the uninterpreted-CRC abstraction gave a spurious counterexample"
            else:
                rec["status"] = "UNKNOWN"
                rec["note"] = "spurious counterexample under the uninterpreted CRC; the exact-CRC run was inconclusive"
        else:
            rec["status"] = "MODEL-MISMATCH"
            events.append(("HARNESS-ERROR", o.name, "counterexample %s does not reproduce on the real code (%s)" % (str(main["args"])[:300], outcome)))
    elif main.get("status") == "UNKNOWN":
        msgs = main.get("messages") or []
        if msgs:
            rec["note"] = (rec.get("note") or "") + " " + msgs[0].get("message", "")[:300]
    twin = w["results"].get("twin")
    if twin is not None:
        if twin.get("status") == "REFUTED" and twin.get("args"):
            path, outcome, observed = do_replay(pid, module, tier, o, None, twin["args"], suffix=".twin")
            rec["replays"] += 1
            rec["twin"] = {"witness": twin["args"], "replay": outcome}
            if outcome == "passes":
                rec["twin"]["ok"] = True
            elif rec.get("status") == "CONFIRMED":
                # the reachability witness must itself satisfy the property concretely
                rec["twin"]["ok"] = False
                rec["status"] = "MODEL-MISMATCH"
                events.append(("HARNESS-ERROR", o.name, "twin witness %s does not pass on the real code: %s" % (twin["args"], observed[:300])))
        else:
            rec["twin"] = {"witness": None, "status": twin.get("status"), "ok": False}
            if rec.get("status") == "CONFIRMED":
                rec["status"] = "VACUOUS"
                rec["note"] = "reachability twin was not refuted: no path reaches the end of the harness"
    # ---- witness obligations for listed known findings
    rec["known_findings"] = []
    for fid in active:
        ww = run_worker(module, tier, o, ["witness:" + fid], hard)
        r = ww.get("results", {}).get("witness:" + fid, {})
        entry = {"id": fid, "status": r.get("status"), "paths": r.get("paths", 0), "solver_checks": r.get("solver_checks", 0),
                 "solver_secs": r.get("solver_secs", 0.0)}
        if r.get("status") == "REFUTED" and r.get("args"):
            path, outcome, observed = do_replay(pid, module, tier, o, fid, r["args"])
            rec["replays"] += 1
            entry.update({"witness": r["args"], "replay": outcome, "observed": observed[:400], "replay_path": path})
            if outcome == "fails":
                events.append(("KNOWN-FINDING", fid, findings_db[fid]["what"]))
                entry["reproduced"] = True
        elif r.get("status") == "CONFIRMED":
            entry["note"] = "finding region now satisfies the property in this obligation"
        rec["known_findings"].append(entry)
    return rec, events


def main(argv):
    pid, tier = argv[0], argv[1]
    only = None
    jobs = int(os.environ.get("VERIF_JOBS", "16"))
    if "--only" in argv:
        only = argv[argv.index("--only") + 1]
    if "--jobs" in argv:
        jobs = int(argv[argv.index("--jobs") + 1])
    seed = int(os.environ.get("VERIF_SEED", "0"))
    load_properties()
    t0 = time.time()
    module = "harness.%s" % pid.lower()
    mod = importlib.import_module(module)
    obls = mod.obligations(tier)
    if only:
        obls = [o for o in obls if only in o.name]
    from engine import hlib
    findings_db = {k: v for k, v in hlib._load_findings().items() if pid in v.get("properties", [])}
    results, events = [], []
    with cf.ThreadPoolExecutor(max_workers=jobs) as ex:
        futs = {ex.submit(process, pid, module, tier, o, findings_db): o for o in obls}
        for fut in cf.as_completed(futs):
            rec, ev = fut.result()
            results.append(rec)
            events.extend(ev)
            tag = rec.get("status")
            sys.stderr.write("[%s] %-12s %s (%.1fs, %s paths)\n" % (pid, tag, rec["name"], rec.get("wall_s") or 0, rec.get("paths")))
    results.sort(key=lambda r: r["name"])
    order = {o.name: i for i, o in enumerate(obls)}
    results.sort(key=lambda r: order.get(r["name"], 0))
    # lemma dependency: an Engine-A obligation that relies on a contract is only as good as the lemma behind it
    status_by_name = {r["name"]: r.get("status") for r in results}
    for r in results:
        for lem in r.get("lemmas", []):
            deps = [n for n in status_by_name if n.startswith(lem)]
            if r.get("status") == "CONFIRMED" and any(status_by_name[d] != "CONFIRMED" for d in deps):
                r["status"] = "UNKNOWN"
                r["note"] = "depends on lemma %s which was not discharged in this run" % lem
    violations = [e for e in events if e[0] == "VIOLATION"]
    herrors = [e for e in events if e[0] == "HARNESS-ERROR"]
    known = {}
    for e in events:
        if e[0] == "KNOWN-FINDING":
            known[e[1]] = e[2]
    for fid, what in sorted(known.items()):
        print("KNOWN-FINDING: property=%s %s [%s]" % (pid, what, fid))
    for fid, f in sorted(findings_db.items()):
        if fid not in known and not only:
            print("NOTE: listed finding %s did not reproduce in this run (%s)" % (fid, f["what"]))
    for e in violations:
        print("VIOLATION property=%s replay=%s" % (pid, e[2]))
        print("  obligation: %s" % e[1])
    for e in herrors:
        print("HARNESS-ERROR property=%s obligation=%s: %s" % (pid, e[1], e[2]))
    wall = time.time() - t0
    write_evidence(pid, tier, seed, mod, results, violations, known, wall)
    n = len(results)
    disc = sum(1 for r in results if r.get("status") == "CONFIRMED")
    for r in results:
        if r.get("status") == "CONFIRMED" and getattr(obls[order[r["name"]]], "whole_finding", None) in findings_db:
            print("NOTE: obligation %s lies in listed finding %s but now satisfies the property" % (r["name"], obls[order[r["name"]]].whole_finding))
    print("%s %s: %d obligations, %d discharged, %d inconclusive, %d violations, %d known findings reproduced, %.1fs" % (
        pid, tier, n, disc, sum(1 for r in results if r.get("status") in ("UNKNOWN", "VACUOUS", "MODEL-MISMATCH", "ERROR")),
        len(violations), len(known), wall))
    if violations:
        return 1
    if herrors:
        return 2
    return 0


def write_evidence(pid, tier, seed, mod, results, violations, known, wall):
    n = len(results)
    disc = [r for r in results if r.get("status") == "CONFIRMED"]
    inconc = [r for r in results if r.get("status") in ("UNKNOWN", "VACUOUS", "MODEL-MISMATCH", "ERROR")]
    paths = sum((r.get("paths") or 0) for r in results) + sum(k.get("paths", 0) for r in results for k in r.get("known_findings", []))
    checks = sum((r.get("solver_checks") or 0) for r in results) + sum(k.get("solver_checks", 0) for r in results for k in r.get("known_findings", []))
    secs = sum((r.get("solver_secs") or 0) for r in results)
    replays = sum(r.get("replays", 0) for r in results)
    funcs = sorted({f for r in results for f in (r.get("functions") or []) })
    stubs = None
    for r in results:
        if r.get("stubs_and_models"):
            stubs = r["stubs_and_models"]
            break
    samples = []
    for r in results[:6]:
        samples.append({"obligation": r["name"], "status": r.get("status"), "bounds": r.get("bounds"),
                        "reachability_witness": (r.get("twin") or {}).get("witness"), "paths": r.get("paths")})
    for r in results:
        if r.get("counterexample"):
            samples.append({"obligation": r["name"], "status": r.get("status"), "counterexample": r["counterexample"],
                            "replay": r.get("replay")})
    slim = []
    for r in results:
        s = {k: v for k, v in r.items() if k not in ("stubs_and_models", "traceback")}
        slim.append(s)
    ev = {
        "property_id": pid,
        "tier": tier,
        "seed": seed,
        "level": getattr(mod, "LEVEL", "model_checking"),
        "wall_s": round(wall, 2),
        "violations": len(violations),
        "assumptions": list(getattr(mod, "ASSUMPTIONS", [])) + [
            "CrossHair 0.0.110's models of Python semantics and z3 are trusted",
            "stubs/models/contracts listed in coverage.stubs_and_models are part of every claim",
            "a CONFIRMED obligation covers exactly its stated bounds; nothing outside them is claimed",
        ],
        "coverage": {
            "explanation": getattr(mod, "EXPLANATION", ""),
            "technique": "symbolic execution of the real pymodbus modules (CrossHair) with z3 deciding every path; "
                         "leaf kernels by direct AST->z3 translation (pysym); counterexamples replayed on the unpatched code",
            "obligations": n,
            "discharged": len(disc),
            "inconclusive": len(inconc),
            "inconclusive_names": [r["name"] for r in inconc],
            "states": max(paths, 1),
            "transitions": max(checks, 1),
            "solver_seconds": round(secs, 2),
            "traces_validated_against_impl": replays,
            "functions_encoded": funcs,
            "known_findings_reproduced": sorted(known),
            "stubs_and_models": stubs,
            "samples": samples,
            "obligation_results": slim,
            "checker_cmd": "./check %s %s" % (pid, tier),
            "trusted_base": ["CPython 3.12", "crosshair-tool 0.0.110", "z3 5.1.0 (wheel)", "engine/chplugin.py + engine/chmodels.py models"],
            "exhaustive": False,
        },
    }
    os.makedirs(os.path.join(ROOT, "evidence"), exist_ok=True)
    with open(os.path.join(ROOT, "evidence", pid + ".json"), "w") as f:
        json.dump(ev, f, indent=1)


if __name__ == "__main__":
    sys.exit(main(sys.argv[1:]))
