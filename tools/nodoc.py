import sys,ast
for f in sys.argv[1:]:
    print("####",f)
    src=open(f).read()
    tree=ast.parse(src)
    for n in ast.walk(tree):
        if isinstance(n,(ast.FunctionDef,ast.AsyncFunctionDef,ast.ClassDef,ast.Module)):
            if n.body and isinstance(n.body[0],ast.Expr) and isinstance(getattr(n.body[0],'value',None),ast.Constant) and isinstance(n.body[0].value.value,str):
                n.body=n.body[1:] or [ast.Pass()]
    print(ast.unparse(tree))
