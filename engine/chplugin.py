"""CrossHair plugin for pymodbus: environment stubs, CPython models and kernel contracts.

Every entry here is part of every Engine-A claim (listed in evidence under
`stubs_and_models`). Stubs replace code whose behaviour no property depends on
(logging, log formatting); models replace CPython builtins that CrossHair would
otherwise realise (enumerate values for); contracts replace leaf kernels by the
facts Engine B proves about them (see pysym lemmas K1-K3).

install(contracts=...) is called once per worker process before analysis.
"""
import logging
import sys
import time

from crosshair.core import _PATCH_REGISTRATIONS, register_patch, realize, deep_realize
from crosshair.tracers import NoTracing, ResumedTracing, is_tracing
from crosshair.statespace import context_statespace
from crosshair.libimpl import builtinslib as _bl
from crosshair.libimpl.builtinslib import SymbolicInt, SymbolicBool
from crosshair.util import IgnoreAttempt
import z3

INSTALLED = {"stubs": [], "models": [], "contracts": []}

# format strings whose result is protocol data (everything else is cosmetic: logs, exception texts, __str__)
SEMANTIC_FORMATS = {"%02x%02x", "%02x"}


# Our overrides form an extra patch layer ON TOP of CrossHair's own registrations (added/removed together with
# them by wrapping core.Patched). A call of the patched entity made from inside one of our override functions
# resolves to the next lower layer (CrossHair's model, then the real builtin) -- PatchingModule's own mechanism.
EXTRA_LAYER = {}


def _override(entity, impl):
    EXTRA_LAYER[entity] = impl


def _install_layer():
    import crosshair.core as core
    if getattr(core.Patched, "_verif_layered", False):
        return
    orig_enter, orig_exit = core.Patched.__enter__, core.Patched.__exit__

    def __enter__(self):
        r = orig_enter(self)
        core.COMPOSITE_TRACER.patching_module.add(EXTRA_LAYER)
        return r

    def __exit__(self, *a):
        core.COMPOSITE_TRACER.patching_module.pop(EXTRA_LAYER)
        return orig_exit(self, *a)

    core.Patched.__enter__ = __enter__
    core.Patched.__exit__ = __exit__
    core.Patched._verif_layered = True


def _is_symbolic(v, depth=0):
    with NoTracing():
        return _is_symbolic_nt(v, depth)


def _is_symbolic_nt(v, depth=0):
    if isinstance(v, (_bl.CrossHairValue,)):
        return True
    if depth < 3 and isinstance(v, (tuple, list)):
        return any(_is_symbolic_nt(x, depth + 1) for x in v)
    if depth < 3 and isinstance(v, dict):
        return any(_is_symbolic_nt(x, depth + 1) for x in v.values())
    if isinstance(v, (int, str, bytes, float, bool, type(None))):
        return False
    # arbitrary object (e.g. a message whose __str__ would format symbolic fields)
    return depth < 3 and not isinstance(v, type)


# --------------------------------------------------------------------------- stubs
def _noop(*a, **kw):
    return None


def _false(*a, **kw):
    return False


def _frozen_time():
    return 1000.0


def _install_logging_stubs():
    for name in ("debug", "info", "warning", "warn", "error", "exception", "critical", "log"):
        fn = getattr(logging.Logger, name)
        _override(fn, _noop)
    _override(logging.Logger.isEnabledFor, _false)
    INSTALLED["stubs"].append("logging.Logger.{debug,info,warning,error,exception,critical,log} -> no-op; isEnabledFor -> False")
    _override(time.sleep, _noop)
    INSTALLED["stubs"].append("time.sleep -> no-op")
    _override(time.time, _frozen_time)
    INSTALLED["stubs"].append("time.time -> frozen clock 1000.0 (only feeds log text and the RTU inter-frame bookkeeping; harnesses that reason about deadlines install their own clock)")
    # pymodbus.utilities.hexlify_packets is NOT stubbed: transaction.execute() uses the emptiness of its result to decide
    # whether to reset the framer, so the real function runs; only hex() of a symbolic value is a placeholder




class LazyText(str):
    """placeholder for text formatted from symbolic values. Almost all such text only feeds log records; the few
    consumers that give text a meaning (struct format strings, int(text, base)) call semantic_text(), which computes
    the real text (realising the values) from what is remembered here."""
    def __new__(cls, kind, fmt, args, kwargs=None):
        o = str.__new__(cls, "<fmt>")
        o._lazy = (kind, fmt, args, kwargs or {})
        return o


def semantic_text(x):
    """called by models of functions that interpret text: never let placeholder text be interpreted"""
    with NoTracing():
        lazy = getattr(x, "_lazy", None) if type(x) is LazyText else None
        plain_placeholder = lazy is None and type(x) is str and ("<fmt>" in x or "<hex>" in x)
    if lazy is not None:
        from crosshair.core import deep_realize
        kind, fmt, args, kwargs = lazy
        if kind == "%":
            return str.__mod__(fmt, deep_realize(args))
        return str.format(fmt, *deep_realize(args), **deep_realize(kwargs))
    if plain_placeholder:
        from crosshair.util import CrosshairUnsupported
        raise CrosshairUnsupported("placeholder text (formatted from symbolic values) reached a function that interprets it")
    return x


_SPEC = None


def _percent_type_errors(fmt, other):
    """the TypeErrors CPython's % operator raises from the SHAPE of its operands (argument count, a non-number for a
    numeric conversion): they do not depend on symbolic values, and code under test may trip over them (a log line
    formatting a Deferred with %d), so the placeholder must not swallow them"""
    global _SPEC
    import re
    import numbers
    if _SPEC is None:
        _SPEC = re.compile(r"%(\((?P<key>[^)]*)\))?[#0\- +]*(\*|\d+)?(\.(\*|\d+))?[hlL]?(?P<conv>[diouxXeEfFgGcrsa%])")
    specs = [m for m in _SPEC.finditer(fmt) if m.group("conv") != "%"]
    if any(m.group("key") is not None for m in specs) or any("*" in m.group(0) for m in specs):
        return
    args = other if isinstance(other, tuple) else (other,)
    if len(args) < len(specs):
        raise TypeError("not enough arguments for format string")
    if len(args) > len(specs) and not (len(specs) == 0 and isinstance(other, dict)):
        raise TypeError("not all arguments converted during string formatting")
    for m, a in zip(specs, args):
        c = m.group("conv")
        if c in "diouxXeEfFgG":
            ok = isinstance(a, (numbers.Number, _bl.CrossHairValue)) or hasattr(type(a), "__int__") or hasattr(type(a), "__index__") or hasattr(type(a), "__float__")
            if not ok:
                raise TypeError("%%%s format: a real number is required, not %s" % (c, type(a).__name__))


def _percent(self, other):
    with NoTracing():
        concrete_fmt = type(self) is str
        sym = _is_symbolic_nt(other)
        if concrete_fmt and sym and self not in SEMANTIC_FORMATS:
            _percent_type_errors(self, other)
    if concrete_fmt and sym:
        if self in SEMANTIC_FORMATS:
            r = _hex2_format(self, other)
            if r is not None:
                return r
            return str.__mod__(self, other)
        return LazyText("%", self, other)
    return str.__mod__(self, other)      # next layer: CrossHair's model (realises, then the builtin)


def _format(self, *a, **kw):
    with NoTracing():
        concrete_fmt = type(self) is str
        sym = _is_symbolic_nt(a) or _is_symbolic_nt(kw)
    if concrete_fmt and sym:
        return LazyText("format", self, a, kw)
    return str.format(self, *a, **kw)


_HEXDIGITS = "0123456789abcdef"


def _hexdigit_str(n):
    """nibble (SymbolicInt or int 0..15) -> one-char symbolic str (lowercase hex digit), branch-free."""
    from crosshair.libimpl.builtinslib import LazyIntSymbolicStr, SymbolicInt
    from crosshair.statespace import context_statespace as _cs
    from engine import chmodels
    with NoTracing():
        if isinstance(n, SymbolicInt):
            cp = chmodels.hexchar_sym(_cs(), n.var)
        else:
            cp = n + (87 if n >= 10 else 48)
        return LazyIntSymbolicStr([cp])


def _hex2_format(fmt, other):
    """'%02x' / '%02x%02x' with ints in 0..255 (ascii framer buildPacket)."""
    if not isinstance(other, tuple):
        other = (other,)
    out = ""
    for v in other:
        if not (0 <= v <= 255):
            return None
        with NoTracing():
            from crosshair.libimpl.builtinslib import SymbolicInt
            if isinstance(v, SymbolicInt):
                from engine import chmodels
                from crosshair.statespace import context_statespace as _cs
                hi, lo = chmodels.nibbles(_cs(), v.var)
                hi, lo = SymbolicInt(hi), SymbolicInt(lo)
            else:
                hi, lo = v // 16, v % 16
        out = out + _hexdigit_str(hi) + _hexdigit_str(lo)
    return out


def _hex(v):
    with NoTracing():
        sym = isinstance(v, _bl.CrossHairValue)
    if sym:
        return "<hex>"
    return hex(v)


def _install_format_stubs():
    _override(str.__mod__, _percent)
    _override(str.format, _format)
    _override(hex, _hex)
    INSTALLED["stubs"].append("str %% / str.format / hex() with symbolic arguments -> placeholder text (it feeds log records), except protocol formats %s; struct.pack/unpack and int() compute the real text if such a placeholder reaches them as a format string / numeral" % sorted(SEMANTIC_FORMATS))


def install(contracts=()):
    if INSTALLED.get("done"):
        return INSTALLED
    _install_layer()
    _install_logging_stubs()
    _install_format_stubs()
    from engine import chmodels
    chmodels.install(INSTALLED, contracts)
    INSTALLED["done"] = True
    return INSTALLED
