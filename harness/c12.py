"""C12 -- no received byte sequence can crash a server or corrupt its data.

any.<frontend>.<framing>.fc<N>.len<L>.<reads>: ANY byte string B of length L (all bytes symbolic except the
function-code position) is sent to one connection of a front-end in one read or split in two. Asserted:
  * no exception leaves the front-end's entry points (for Twisted the reactor contract applies: an exception in
    dataReceived/datagramReceived is logged and only that connection / datagram is dropped);
  * the datastore afterwards is either unchanged or is what the reference model prescribes for a write request
    that a frame in B carries with a valid integrity check (C07's recogniser);
  * a well-formed probe request on a FRESH connection to the same server is then answered correctly.
"""
from engine.hlib import assume, same, explain, known
from engine.obl import Obl
from spec import adu, regfile
from harness import serverlib as SL
from harness.c07 import SpyDecoder, JUST, FCPOS

LEVEL = "model_checking"
EXPLANATION = ("Bounded symbolic model checking of every front-end's serving loop, framer and decoder on arbitrary input bytes: "
               "no escaping exception, data changes only as justified write requests prescribe, service continues.")
ASSUMPTIONS = ["buffers of the stated length, one or two reads, one connection then a fresh probe connection; function-code byte concrete per obligation",
               "front-ends driven as in C09; Twisted's reactor contract (exception in dataReceived drops that connection only) is part of the environment model",
               "RTU/binary CRC appears as the uninterpreted-step contract (K1), the same function on the receiver's and the recogniser's side"]


def make_any(frontend, framing, fc, L, reads):
    def anyb(B: bytes, st: bytes) -> bool:
        from pymodbus.factory import ServerDecoder
        assume(len(B) == L and len(st) == 8)
        if framing == "ascii":
            hx = b"%02X" % fc
            assume(B[0] == 0x3A)
            assume(B[3] == hx[0])
            assume(B[4] == hx[1])
        elif framing == "binary":
            assume(B[0] == 0x7B)
            assume(B[2] == fc)
        elif framing == "tcp" and L <= 7:
            assume(B[0] == fc)            # shorter than an MBAP header: the first byte is what a bare PDU would start with
        else:
            assume(B[FCPOS[framing]] == fc)
        regs = [st[2 * i] * 256 + st[2 * i + 1] for i in range(4)]
        slave = SL.small_context(hr=regs)
        ctx = SL.server_context(slave, single=True)
        spy = SpyDecoder(ServerDecoder())
        chunks = [B] if reads == 1 else [B[:L // 2], B[L // 2:]]
        r = SL.drive(frontend, framing, ctx, chunks, decoder=spy)
        if r.escaped is not None:
            explain("%s escaped the front-end: %s", type(r.escaped).__name__, r.escaped)
            return False
        after = list(slave.store["h"].values)
        others_ok = list(slave.store["c"].values) == [False] * 4 and list(slave.store["d"].values) == [False] * 4 and \
            list(slave.store["i"].values) == [0] * 4
        if not others_ok:
            explain("a table other than the holding registers changed")
            return False
        if after != list(regs):
            ok = False
            for pdu, res in spy.log:
                # a decoded holding-register write request (FC 6, 16, 22, 23) carried by a valid frame of the input
                if res is None or len(pdu) < 5 or not (pdu[0] == 6 or pdu[0] == 16 or pdu[0] == 22 or pdu[0] == 23):
                    continue
                if reads == 1 and not JUST[framing](B, pdu, res):
                    continue
                wfc = 6 if pdu[0] == 6 else (16 if pdu[0] == 16 else (22 if pdu[0] == 22 else 23))
                if wfc == 22 and len(pdu) < 7:
                    continue
                if (wfc == 16 and len(pdu) < 6) or (wfc == 23 and len(pdu) < 10):
                    continue
                # what the register-file model prescribes for that request (nothing, if it must be rejected)
                if regfile.verdict(wfc, pdu[1:], (0, list(regs)), True) != 0:
                    continue
                exp = regfile.model(wfc, pdu[1:], (0, list(regs)), True)[1]
                if after == exp:
                    ok = True
            if not ok:
                explain("holding registers changed from %r to %r without a justified write request in the input", list(regs), after)
                return False
        # service continues: probe on a fresh connection
        probe = adu.ref_adu_clean(framing, bytes([3, 0, 0, 0, 2]), 1, b"\x12\x34")
        r2 = SL.drive(frontend, framing, ctx, [probe])
        if r2.escaped is not None or r2.twisted_dropped is not None:
            explain("probe connection failed: %r", r2.escaped or r2.twisted_dropped)
            return False
        exp_pdu = bytes([3, 4]) + bytes([after[0] // 256, after[0] % 256, after[1] // 256, after[1] % 256])
        return len(r2.written) == 1 and same(r2.written[0], adu.ref_adu_clean(framing, exp_pdu, 1, b"\x12\x34"), "probe response")
    return anyb


def make_framed(frontend, framing, fc, blen, fix=()):
    """well-framed request whose PDU body is ANY blen bytes (internally inconsistent byte counts / quantities included);
    fix = ((index, value) | (index, "<=", value), ...): body bytes that select a dictionary-dispatched sub-function
    (or bound a length the decoder slices with) are fixed per obligation - the engine would enumerate them anyway"""
    def framed(hdr: bytes, b: bytes, st: bytes) -> bool:
        assume(len(hdr) == 3 and len(b) == blen and len(st) == 8)
        for f in fix:
            if len(f) == 2:
                assume(b[f[0]] == f[1])
            else:
                assume(b[f[0]] <= f[2])
        unit = hdr[2]
        if framing != "tcp":
            assume(unit != 0)
            # on a serial line the frame length IS derived from the byte-count byte: a PDU that is longer or shorter than
            # its byte count says is not a well-framed request there (its checksum sits elsewhere)
            if fc == 16:
                assume(b[4] == blen - 5)
            if fc == 23:
                assume(b[8] == blen - 9)
        regs = [st[2 * i] * 256 + st[2 * i + 1] for i in range(4)]
        slave = SL.small_context(hr=regs)
        ctx = SL.server_context(slave, single=True)
        frame = adu.ref_adu_clean(framing, bytes([fc]) + b, unit, hdr[0:2])
        r = SL.drive(frontend, framing, ctx, [frame])
        if r.escaped is not None:
            explain("%s escaped the front-end: %s", type(r.escaped).__name__, r.escaped)
            return False
        after = list(slave.store["h"].values)
        if fc not in (3, 6, 16, 22, 23):
            exp = list(regs)             # not a holding-register write: the registers stay as they are
        elif regfile.verdict(fc, b, (0, list(regs)), True) == 0:
            exp = regfile.model(fc, b, (0, list(regs)), True)[1]
        else:
            exp = list(regs)             # a request that must be rejected changes nothing
        if len(after) != 4:
            explain("the register block changed its size to %d cells", len(after))
            return False
        if not same(after, exp, "holding registers after the request"):
            return False
        probe = adu.ref_adu_clean(framing, bytes([3, 0, 0, 0, 2]), 1, b"\x12\x34")
        r2 = SL.drive(frontend, framing, ctx, [probe])
        if r2.escaped is not None or r2.twisted_dropped is not None:
            return False
        exp_pdu = bytes([3, 4]) + bytes([after[0] // 256, after[0] % 256, after[1] // 256, after[1] % 256])
        return len(r2.written) == 1 and same(r2.written[0], adu.ref_adu_clean(framing, exp_pdu, 1, b"\x12\x34"), "probe response")
    return framed


def obligations(tier):
    from harness import kernels
    T = 300 if tier == "quick" else 1800
    out = [kernels.K1(tier), kernels.K2(tier)]
    contracts = {"tcp": (), "rtu": ("crc",), "binary": ("crc",), "ascii": ("lrc",)}
    lem = {"tcp": (), "rtu": ("K1",), "binary": ("K1",), "ascii": ("K2",)}
    plan = []
    for fe in SL.FRONTENDS:
        if fe == "sync-serial":
            frs = [("rtu", 8), ("ascii", 17)] if tier == "quick" else [("rtu", 8), ("rtu", 9), ("ascii", 17), ("binary", 10)]
        else:
            frs = [("tcp", 12)] if tier == "quick" else [("tcp", 12), ("tcp", 9), ("tcp", 14)]

            if fe in ("sync-tcp", "twisted-tcp") and tier != "quick":
                frs += [("rtu", 8)]
        for fr, L in frs:
            fcs = [6, 16] if tier == "quick" else [3, 6, 16, 23, 8, 43, 0x55, 0x86]
            if fr == "ascii" and tier == "quick":
                fcs = [6]
            if fr == "rtu" and tier == "quick":
                fcs = [6, 0x55]           # byte-count based sizes (fc 16) make the engine enumerate the count: thorough
            for fc in fcs:
                for reads in ((1, 2) if fe in SL.STREAM else (1,)):
                    if tier == "quick" and reads == 2 and (fc != 6 or fr == "ascii"):
                        continue
                    plan.append((fe, fr, fc, L, reads))
    # well-framed requests with arbitrary (possibly inconsistent) PDU bodies
    framed = [("sync-tcp", "tcp", 23, 13), ("asyncio-udp", "tcp", 16, 9), ("twisted-tcp", "tcp", 23, 13), ("sync-serial", "rtu", 16, 9)]
    if tier != "quick":
        framed += [(fe, "tcp", fc, bl) for fe in ("sync-udp", "asyncio-tcp", "twisted-udp") for fc, bl in ((23, 13), (16, 9), (22, 6))]
    # every function code of the server's decoder table (and one unassigned code) with an arbitrary body
    # (body lengths per function code: the fixed-format decoders reject any other length at once)
    sweep_fcs = {1: (4,), 2: (4,), 4: (4,), 5: (4,), 7: (0, 2), 8: (6,), 11: (0,), 12: (0,), 15: (6, 7), 17: (0,),
                 20: (8, 15), 24: (2,), 0x55: (4,)}
    framed = [f + ((),) for f in framed]
    for fe in (("sync-tcp",) if tier == "quick" else ("sync-tcp", "twisted-tcp", "asyncio-udp")):
        framed += [(fe, "tcp", fc, bl, ()) for fc in sorted(sweep_fcs) for bl in sweep_fcs[fc]]
        # diagnostics: sub-function fixed per obligation (dictionary dispatch), data word symbolic
        subs = (0, 1, 4, 10, 20, 21, 0xFFFF) if tier == "quick" else tuple(range(0, 22)) + (0xFFFF,)
        framed += [(fe, "tcp", 8, 4, ((0, sf // 256), (1, sf % 256))) for sf in subs]
        # MEI: type 0x0E fixed (read code and object id symbolic), and one other type
        # (read code 4 looks the object id up in a dictionary: ids bounded there, symbolic for the range reads)
        oid = ((2, "<=", 8),) if tier == "quick" else ()
        framed += [(fe, "tcp", 43, 3, ((0, 14), (1, "<=", 3)) + oid), (fe, "tcp", 43, 3, ((0, 13), (1, "<=", 3)) + oid),
                   (fe, "tcp", 43, 3, ((0, 14), (1, 4), (2, "<=", 8)))]
        # write file record: the record-length field the decoder slices with is bounded, everything else (byte count,
        # reference type, file and record numbers, data) is symbolic
        framed += [(fe, "tcp", 21, 10, ((6, 0), (7, "<=", 2)))]
        if tier != "quick":
            framed += [(fe, "tcp", 21, 19, ((6, 0), (7, "<=", 2), (15, 0), (16, "<=", 2)))]
    for fe, fr, fc, bl, fix in framed:
        tag = "".join(".b%d%s%d" % (f[0], "le" if len(f) == 3 else "=", f[-1]) for f in fix)
        out.append(Obl("framed.%s.%s.fc%d.body%d%s" % (fe, fr, fc, bl, tag), make_framed(fe, fr, fc, bl, fix), timeout=T,
                       contracts=contracts[fr], lemmas=lem[fr], findings=("KF-write-registers-short-data-c12",) if False else (),
                       bounds="%s front-end, %s framing: a correctly framed request with function code %d whose %d body bytes are arbitrary (inconsistent quantity / byte count included); 4 symbolic registers; then a probe" % (fe, fr, fc, bl)))
    # inputs shorter than an MBAP header (the socket framer's header-less path)
    for fe in (("sync-tcp", "twisted-udp") if tier == "quick" else SL.FRONTENDS):
        if fe == "sync-serial":
            continue
        for fc, L in ((6, 5), (22, 7)):
            plan.append((fe, "tcp", fc, L, 1))
    # truncated RTU requests of functions whose frame size comes from a byte-count field that has not arrived yet
    for fc, L in ((16, 3), (16, 6), (23, 6), (21, 2)) if tier == "quick" else ((15, 2), (15, 5), (16, 2), (16, 3), (16, 6), (23, 3), (23, 6), (23, 10), (20, 2), (21, 2)):
        plan.append(("sync-serial", "rtu", fc, L, 1))
        if tier != "quick":
            plan.append(("sync-tcp", "rtu", fc, L, 1))
    # the serial-style front-end has ONE connection: "keeps serving" means the same port answers later requests
    # (harness shared with C11: garbage, then four valid requests, the last two must be answered)
    from harness import c11
    for fr, kind, G in ((("ascii", "raw", 3), ("ascii", "raw", 4), ("ascii", "delims", 3)) if tier == "quick" else
                        (("ascii", "raw", 3), ("ascii", "raw", 4), ("ascii", "raw", 5), ("ascii", "raw", 6), ("ascii", "delims", 3), ("ascii", "delims", 4), ("binary", "delims", 3))):
        out.append(Obl("sameport.sync-serial.%s.%s.g%d" % (fr, kind, G), c11.make_handler(fr, kind, G), timeout=T, contracts=contracts[fr], lemmas=lem[fr],
                       bounds="real serial-style handler, %s framing: %d bytes (%s) in one read, then four valid FC6 requests on the same port: at least the last two are answered" % (
                           fr, G, "any" if kind == "raw" else "a mix of delimiter characters")))
    for fe, fr, fc, L, reads in plan:
        out.append(Obl("any.%s.%s.fc%d.len%d.reads%d" % (fe, fr, fc, L, reads), make_any(fe, fr, fc, L, reads), timeout=T,
                       contracts=contracts[fr], lemmas=lem[fr],
                       bounds="%s front-end, %s framing: any %d-byte input with function-code byte 0x%02X in %d read(s); 4 symbolic registers; then a probe on a fresh connection" % (fe, fr, L, fc, reads)))
    return out
