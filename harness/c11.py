"""C11 -- receivers resynchronise after noise and never go deaf (serial framings).

resync.<framing>.<garbage kind>: a fresh receiver (framer + the serial handlers' rule "an exception from
processIncomingPacket resets the framer") first reads a garbage chunk, then K = 4 reads of one valid frame each
(symbolic unit, address, value). Asserted: the 3rd and 4th valid frame are delivered (the property's bound of
"no more than two frames" of valid traffic lost), each delivery is the frame's own message, and after every valid
frame the backlog is at most garbage + one frame.
twoperread.*: the same with two valid frames per read.
sizebound.rtu.<dir>.fc<k>: the length the RTU receiver waits for, as announced by ANY header bytes, is bounded by one
maximum-size frame (the backlog bound at its source).
handler.<framing>.<kind>: the same question put to the REAL serial-style handler loop (its own exception rule), with
garbage kinds that make the decoder raise: lone delimiters ('{}'), a checksum-valid frame without a PDU, one with a bare
function code.
Liveness is thereby reduced to bounded safety; garbage kinds: arbitrary bytes (function-code byte enumerated),
a frame with a bad checksum, a valid frame for a foreign unit, a truncated frame, lone delimiter characters.
"""
from engine.hlib import lohi, assume, same, explain, known, crc16, crc16_from, lnot
from engine.obl import Obl
from spec import adu

LEVEL = "model_checking"
EXPLANATION = ("Bounded symbolic model checking of the RTU/ASCII/binary receive paths from the state an arbitrary garbage chunk leaves "
               "behind, followed by four valid frames: resynchronisation within two frames and bounded backlog.")
ASSUMPTIONS = ["garbage <= 8 bytes (ASCII <= 12 characters), delivered in one read; K = 4 valid 8-byte frames (ASCII 17 characters), one or two per read",
               "the receiver is the framer plus the serial handlers' exception rule (except: framer.resetFrame()), as in server/sync.py ModbusSingleRequestHandler.handle",
               "RTU: with the checksum uninterpreted, no window that starts at the first garbage byte is itself checksum-valid; binary: no '{'..'}' window that starts inside the garbage and ends in valid traffic is checksum-valid "
               "(for the real CRC-16 this excludes 1 in 65536 inputs per window; such inputs are outside the claim)",
               "garbage whose function code announces a long frame (byte-count based sizes) is limited to announced sizes <= garbage + 2 frames, the property's own bound"]

K = 4


VKINDS = {
    # name: (decoder direction, pdu builder from 4 symbolic bytes, class name, check(message, b))
    "fc6": ("req", lambda b: bytes([6]) + b, "WriteSingleRegisterRequest",
            lambda r, b: r.address == b[0] * 256 + b[1] and r.value == b[2] * 256 + b[3]),
    "fc16": ("req", lambda b: bytes([16]) + b[0:2] + bytes([0, 1, 2]) + b[2:4], "WriteMultipleRegistersRequest",
             lambda r, b: r.address == b[0] * 256 + b[1] and list(r.values) == [b[2] * 256 + b[3]]),
    "rsp3": ("rsp", lambda b: bytes([3, 4]) + b, "ReadHoldingRegistersResponse",
             lambda r, b: list(r.registers) == [b[0] * 256 + b[1], b[2] * 256 + b[3]]),
}


def valid_frame(framing, hdr, b, vkind="fc6"):
    return adu.ref_adu(framing, VKINDS[vkind][1](b), hdr)          # hdr = unit id


def feed(rx, chunk, got, unit):
    try:
        rx.processIncomingPacket(chunk, got.append, unit)
    except Exception:
        import os
        if os.environ.get("VERIF_DEBUG") == "2":
            raise
        rx.resetFrame()            # what the serial-style handlers do


def no_straddle(framing, stream, gl, FL=0):
    """assumption (see module doc): no checksum-valid window starts in the garbage and ends in valid traffic"""
    L = len(stream)
    bad = False
    if framing == "rtu":
        # The RTU framer only ever tests a window that starts at the head of its buffer. While no window starting at
        # the first garbage byte is checksum-valid nothing is delivered or advanced, so the head stays there until a
        # reset empties the buffer; after a reset the head is a read boundary, i.e. the start of a valid frame.
        for i in range(1):
            cs = crc16_from(stream, i)                 # cs[k] = crc16(stream[i:i+k])
            for j in range(i + 4, L + 1):
                c = cs[j - 2 - i]
                bad = bad | ((stream[j - 2] == lohi(c)[0]) & (stream[j - 1] == lohi(c)[1]))
    elif framing == "binary":
        for s in range(gl):
            cs = crc16_from(stream, s + 1)
            # inside valid traffic '}' occurs only as the last byte of a frame (delimiter bytes inside frames are assumed away)
            for e in [gl + FL * k + FL - 1 for k in range(K)]:
                c = cs[e - 2 - (s + 1)]
                bad = bad | ((stream[s] == 0x7B) & (stream[e] == 0x7D) & (stream[e - 2] == lohi(c)[0]) & (stream[e - 1] == lohi(c)[1]))
    assume(lnot(bad))


def make_resync(framing, kind, G, fcbyte=None, per_read=1, vkind="fc6"):
    def resync(g: bytes, u: bytes, b: bytes) -> bool:
        from pymodbus.factory import ServerDecoder, ClientDecoder
        assume(len(g) == G)
        assume(len(u) == 2)
        assume(len(b) == 4)
        unit, other = u[0], u[1]
        assume(1 <= unit <= 247)
        frame = valid_frame(framing, unit, b, vkind)
        FL = len(frame)
        if framing == "binary":
            c = crc16(bytes([unit]) + VKINDS[vkind][1](b))
            hit = (unit == 0x7B) | (unit == 0x7D) | (lohi(c)[0] == 0x7B) | (lohi(c)[0] == 0x7D) | (lohi(c)[1] == 0x7B) | (lohi(c)[1] == 0x7D)
            for i in range(4):
                hit = hit | (b[i] == 0x7B) | (b[i] == 0x7D)
            assume(lnot(hit))         # C03's known finding (delimiter bytes inside a binary frame)
        # ---- the garbage
        if kind == "raw":
            garbage = g
            pos = {"rtu": 1, "binary": 2}.get(framing)
            if pos is not None and fcbyte is not None:
                assume(g[pos] == fcbyte)
            if framing == "rtu" and fcbyte in (16, 15):
                # announced size (byte count + 9) within garbage + 2 frames; with less than 7 garbage bytes the
                # byte-count position falls into the first valid frame
                assume((g + frame)[6] <= 2 * FL - 9)
        elif kind == "badcheck":
            garbage = bytearray(valid_frame(framing, unit, g[:4]))
            garbage = bytes(garbage)
            # same frame layout, checksum field replaced by arbitrary different bytes
            if framing == "ascii":
                assume(lnot((g[4] == garbage[-4]) & (g[5] == garbage[-3])))
                garbage = garbage[:-4] + g[4:6] + garbage[-2:]
            elif framing == "rtu":
                assume(lnot((g[4] == garbage[-2]) & (g[5] == garbage[-1])))
                garbage = garbage[:-2] + g[4:6]
            else:
                assume(lnot((g[4] == garbage[-3]) & (g[5] == garbage[-2])))
                garbage = garbage[:-3] + g[4:6] + garbage[-1:]
        elif kind == "foreign":
            assume(1 <= other <= 247)
            assume(other != unit)
            garbage = valid_frame(framing, other, g[:4])
        elif kind == "truncated":
            garbage = valid_frame(framing, unit, g[:4])[:G]
        elif kind == "delims":
            # lone delimiter / control characters, symbolic mix
            for i in range(G):
                assume((g[i] == 0x3A) | (g[i] == 0x0D) | (g[i] == 0x0A) | (g[i] == 0x7B) | (g[i] == 0x7D))
            garbage = g
        else:
            raise ValueError(kind)
        gl = len(garbage)
        stream = garbage
        for _ in range(K):
            stream = stream + frame
        if kind in ("raw", "badcheck", "truncated", "delims"):
            no_straddle(framing, stream, gl, FL)
        rx = adu.framer_class(framing)(ServerDecoder() if VKINDS[vkind][0] == "req" else ClientDecoder())
        got = []
        feed(rx, garbage, got, unit)
        n_after_garbage = len(got)
        counts = []
        one_read = frame if per_read == 1 else frame + frame
        reads = [one_read for _ in range(K // per_read)]
        for chunk in reads:
            feed(rx, chunk, got, unit)
            counts.append(len(got))
            if len(rx._buffer) > gl + FL * per_read:
                explain("backlog of %d bytes after a valid read (garbage %d, frame %d)", len(rx._buffer), gl, FL)
                return False
        # frames 3 and 4 (the last two) must have been delivered by the time they were read
        if per_read == 1:
            ok = (counts[3] - counts[2] >= 1) and (counts[2] - counts[1] >= 1)
        else:
            ok = counts[1] - counts[0] >= 2
        if not ok:
            explain("deliveries after each valid read: %r (after garbage: %d)", counts, n_after_garbage)
            return False
        # what was delivered for the valid frames is the frame's message
        for r in got[n_after_garbage:][-2:]:
            if type(r).__name__ != VKINDS[vkind][2] or r.unit_id != unit:
                explain("late delivery of %s for unit %r", type(r).__name__, r.unit_id)
                return False
            if not VKINDS[vkind][3](r, b):
                return False
        return True
    return resync


def make_handler(framing, kind, G):
    """the REAL serial-style server handler (server/sync.py ModbusSingleRequestHandler.handle, with its own exception
    rule) instead of the framer plus a re-implementation of that rule: garbage chunk, then K valid FC6 requests, one per
    read; the 3rd and 4th must be answered"""
    def handler(g: bytes, u: int, b: bytes) -> bool:
        from harness import serverlib as SL
        assume(len(g) == G and len(b) == 4)
        assume(1 <= u <= 247)
        assume(b[0] == 0)
        assume(b[1] <= 3)                  # write inside the 4-register table
        frame = valid_frame(framing, u, b)
        FL = len(frame)
        if framing == "binary":
            c = crc16(bytes([u, 6]) + b)
            hit = (u == 0x7B) | (u == 0x7D) | (lohi(c)[0] == 0x7B) | (lohi(c)[0] == 0x7D) | (lohi(c)[1] == 0x7B) | (lohi(c)[1] == 0x7D)
            for i in range(4):
                hit = hit | (b[i] == 0x7B) | (b[i] == 0x7D)
            assume(lnot(hit))
        if kind == "delims":
            for i in range(G):
                assume((g[i] == 0x3A) | (g[i] == 0x0D) | (g[i] == 0x0A) | (g[i] == 0x7B) | (g[i] == 0x7D))
            garbage = g
        elif kind == "fragment":
            # the head of a request whose size comes from a byte-count field that never arrives (an abandoned
            # partial frame), sent AFTER a first request has been served (the receiver is past its initial state)
            assume(g[0] == u)
            assume((g[1] == 15) | (g[1] == 16) | (g[1] == 23))
            garbage = g
        elif kind == "nopdu":
            # a frame whose integrity check holds but which carries no PDU at all (address only)
            garbage = adu.ref_adu(framing, b"", u)
        elif kind == "fconly":
            # ... or nothing but a function-code byte of a request that needs data
            garbage = adu.ref_adu(framing, bytes([g[0]]), u)
            assume((g[0] == 3) | (g[0] == 6) | (g[0] == 16) | (g[0] == 0x55))
        else:
            garbage = g
        stream = garbage
        for _ in range(K):
            stream = stream + frame
        if kind == "raw":
            no_straddle(framing, stream, len(garbage), FL)
        slave = SL.small_context()
        ctx = SL.server_context(slave, single=True)
        lead = [frame] if kind == "fragment" else []
        r = SL.drive("sync-serial", framing, ctx, lead + [garbage] + [frame for _ in range(K)])
        if r.escaped is not None:
            explain("%s escaped the handler", type(r.escaped).__name__)
            return False
        echo = valid_frame(framing, u, b)
        n = 0
        for w in r.written:
            if w == echo:
                n += 1
        if n < 2:
            explain("%d of %d valid requests answered after the garbage %r (responses: %d)", n, K, garbage, len(r.written))
            return False
        return True
    return handler


def make_sizebound(direction, fc):
    """backlog bound at its source: whatever 12 bytes follow a unit id and this function code, the length the RTU
    receiver decides to wait for is at most one maximum-size RTU frame plus the fixed fields in front of a byte count
    (byte count <= 255 at position <= 10, + 2 CRC bytes: 268). A larger announced size means one corrupted header can
    swallow more than the property's two maximum-size frames of valid traffic."""
    def sizebound(g: bytes) -> bool:
        from pymodbus.factory import ServerDecoder, ClientDecoder
        assume(len(g) == 13)
        assume(g[1] == fc)
        dec = ServerDecoder() if direction == "req" else ClientDecoder()
        cls = dec.lookupPduClass(fc)
        try:
            n = cls.calculateRtuFrameSize(g)
        except Exception:
            return True            # no size can be determined: the receiver's exception rule resets (resync.* / handler.*)
        if not (0 <= n <= 268):
            explain("%s announces an RTU frame of %r bytes", cls.__name__, n)
            return False
        return True
    return sizebound


def fifo_size_formula(g: bytes) -> bool:
    """the FIFO response's RTU length is its 16-bit byte count + 6 (unit, function code, the count field, CRC) -- exactly,
    for every header; the cap missing on top of it is the listed finding KF-rtu-announced-size-uncapped"""
    from pymodbus.file_message import ReadFifoQueueResponse
    assume(len(g) == 6)
    n = ReadFifoQueueResponse.calculateRtuFrameSize(g)
    if not same(n, g[2] * 256 + g[3] + 6, "announced size"):
        return False
    # ... and it is known as soon as the count field is there (4 bytes), not later: a read may end right behind it
    try:
        n4 = ReadFifoQueueResponse.calculateRtuFrameSize(g[0:4])
    except Exception as e:
        explain("size not computable from the first 4 header bytes: %s", type(e).__name__)
        return False
    return same(n4, n, "announced size from 4 bytes")


def _ascii_stuck(garbage):
    """region of KF-ascii-deaf-after-bad-frame: the garbage contains a ':' followed later by CR LF (a complete but
    unacceptable frame stays at the head of the buffer for ever)"""
    L = len(garbage)
    hit = False
    for s in range(L):
        for e in range(s + 1, L - 1):
            hit = hit | ((garbage[s] == 0x3A) & (garbage[e] == 0x0D) & (garbage[e + 1] == 0x0A))
    return hit


def obligations(tier):
    from harness import kernels
    T = 300 if tier == "quick" else 1800
    out = [kernels.K1(tier), kernels.K2(tier)]
    contracts = {"rtu": ("crc",), "binary": ("crc",), "ascii": ("lrc",)}
    lem = {"rtu": ("K1",), "binary": ("K1",), "ascii": ("K2",)}
    plan = []
    for framing in ("rtu", "ascii", "binary"):
        flen = {"rtu": 8, "binary": 10, "ascii": 17}[framing]
        if framing == "rtu":
            fcs = [6, 0x83, 16, 0x55] if tier == "quick" else [1, 3, 5, 6, 15, 16, 22, 23, 0x55, 0x83, 0xFF]
            for fc in fcs:
                for G in ([8] if tier == "quick" else [2, 5, 8]):
                    plan.append((framing, "raw", G, fc, 1))
        elif framing == "binary":
            for G in ([6] if tier == "quick" else [3, 6, 9]):
                plan.append((framing, "raw", G, 6, 1))
        else:
            for G in ([6] if tier == "quick" else [4, 6, 10]):
                plan.append((framing, "raw", G, None, 1))
        plan.append((framing, "badcheck", 6, None, 1))
        plan.append((framing, "foreign", 4, None, 1))
        plan.append((framing, "truncated", 5 if framing != "ascii" else 9, None, 1))
        if framing != "rtu":
            plan.append((framing, "delims", 3, None, 1))
        plan.append((framing, "foreign", 4, None, 2))
        if tier != "quick":
            plan.append((framing, "badcheck", 6, None, 2))
            plan.append((framing, "truncated", 3, None, 1))
    plan = [x + ("fc6",) for x in plan]
    # other valid-frame kinds (different lengths, response direction) after a foreign-unit / bad-check frame
    for framing in ("rtu", "ascii", "binary"):
        for vk in (("fc16", "rsp3") if tier != "quick" or framing == "rtu" else ("rsp3",)):
            plan.append((framing, "foreign", 4, None, 1, vk))
            if tier != "quick":
                plan.append((framing, "badcheck", 6, None, 1, vk))
    for direction in ("req", "rsp"):
        for fc in ([1, 3, 6, 15, 16, 23, 20, 21, 24, 43, 0x83] if tier == "quick" else [1, 2, 3, 4, 5, 6, 7, 8, 11, 12, 15, 16, 17, 20, 21, 22, 23, 24, 43, 0x83, 0x55]):
            out.append(Obl("sizebound.rtu.%s.fc%d" % (direction, fc), make_sizebound(direction, fc), timeout=T,
                           whole_finding="KF-rtu-announced-size-uncapped" if (direction, fc) in (("rsp", 43), ("rsp", 24)) else None,
                           bounds="RTU frame-size oracle of the %s class for function code %d on ANY 13 header bytes: announced size within 0..268" % (direction, fc)))
    out.append(Obl("sizeformula.rtu.rsp.fc24", fifo_size_formula, timeout=T,
                   bounds="ReadFifoQueueResponse.calculateRtuFrameSize on any 6 header bytes == 256*hi + lo + 6"))
    for framing, kind, G in (("rtu", "fragment", 4), ("rtu", "fragment", 2), ("binary", "delims", 2), ("binary", "nopdu", 0), ("ascii", "nopdu", 0), ("ascii", "fconly", 1), ("binary", "fconly", 1),
                             ("ascii", "delims", 3), ("rtu", "raw", 3), ("ascii", "raw", 5)):
        if tier == "quick" and (framing, kind) in (("ascii", "delims"), ("ascii", "raw"), ("rtu", "raw")):
            continue
        out.append(Obl("handler.%s.%s.g%d" % (framing, kind, G), make_handler(framing, kind, G), timeout=T, contracts=contracts[framing], lemmas=lem[framing],
                       bounds="the real synchronous serial-style handler, %s framing: garbage kind '%s' (%d symbolic bytes) in one read, then %d valid FC6 requests one per read (unit, address 0..3, value symbolic): at least the last two are answered" % (framing, kind, G, K)))
    for framing, kind, G, fc, per, vk in plan:
        name = "%s.%s.%s.g%d%s%s" % ("resync" if per == 1 else "twoperread", framing, kind, G, "" if fc is None else ".fc%d" % fc, "" if vk == "fc6" else ".valid-" + vk)
        fnd = ()
        wf = None
        if per == 2 and framing == "rtu":
            wf = "KF-rtu-split-or-multiple-frames"
        if per == 2 and framing == "binary":
            wf = "KF-binary-split-or-multiple-frames"
        out.append(Obl(name, make_resync(framing, kind, G, fc, per, vk), timeout=T, contracts=contracts[framing], lemmas=lem[framing], findings=fnd, whole_finding=wf,
                       bounds="%s framing; garbage kind '%s' (%d symbolic bytes%s) in one read, then %d valid %s frames (unit and values symbolic), %d per read" % (
                           framing, kind, G, "" if fc is None else ", function-code byte 0x%02X" % fc, K, vk, per)))
    return out
