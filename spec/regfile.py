"""Reference model of the Modbus data model (Application Protocol v1.1b3 sections 4.3, 4.4 and the state
diagrams of 6.1-6.6, 6.11, 6.12, 6.16, 6.17): four tables, requests FC 1-6, 15, 16, 22, 23.

Decision order per the spec's state diagrams: quantity / value / byte-count check -> exception 03,
then address range check -> exception 02, then processing.
A PDU that is longer than its byte count says (trailing bytes) is not rejected by the model: the PDU
length is the framing's business; a PDU shorter than its byte count promises is rejected with 03.
A table is (start, values): the cells start .. start+len(values)-1 exist (block addressing, after the slave
context's +1 offset unless zero-mode)."""
from engine.hlib import bit_of, bitand16, bitor16, bitnot16, pack_bits

TABLE = {1: 'c', 2: 'd', 3: 'h', 4: 'i', 5: 'c', 6: 'h', 15: 'c', 16: 'h', 22: 'h', 23: 'h'}
READ_LIMIT = {1: 2000, 2: 2000, 3: 125, 4: 125}


def u16(b, i):
    return b[i] * 256 + b[i + 1]


def inside(tbl, a, n):
    start, vals = tbl
    return (start <= a) and (a + n <= start + len(vals))


def be16(v):
    return bytes([v // 256, v % 256])


def exc(fc, code):
    return bytes([fc + 0x80, code])


def verdict(fc, b, tbl, zero_mode):
    """exception code the request must be answered with (0 = normal response); no table access"""
    off = 0 if zero_mode else 1
    if fc in (1, 2, 3, 4):
        addr, qty = u16(b, 0), u16(b, 2)
        if not (1 <= qty <= READ_LIMIT[fc]):
            return 3
        return 0 if inside(tbl, addr + off, qty) else 2
    if fc == 5:
        word = u16(b, 2)
        if not ((word == 0) or (word == 0xFF00)):
            return 3
        return 0 if inside(tbl, u16(b, 0) + off, 1) else 2
    if fc in (6, 22):
        return 0 if inside(tbl, u16(b, 0) + off, 1) else 2
    if fc == 15:
        qty, bc = u16(b, 2), b[4]
        if not (1 <= qty <= 1968) or bc != (qty + 7) // 8 or len(b) < 5 + bc:
            return 3
        return 0 if inside(tbl, u16(b, 0) + off, qty) else 2
    if fc == 16:
        qty, bc = u16(b, 2), b[4]
        if not (1 <= qty <= 123) or bc != 2 * qty or len(b) < 5 + bc:
            return 3
        return 0 if inside(tbl, u16(b, 0) + off, qty) else 2
    if fc == 23:
        raddr, rqty, waddr, wqty, bc = u16(b, 0), u16(b, 2), u16(b, 4), u16(b, 6), b[8]
        if not (1 <= rqty <= 125) or not (1 <= wqty <= 121) or bc != 2 * wqty or len(b) < 9 + bc:
            return 3
        if not inside(tbl, raddr + off, rqty) or not inside(tbl, waddr + off, wqty):
            return 2
        return 0
    raise ValueError(fc)


def model(fc, b, tbl, zero_mode):
    """Returns (response PDU bytes, new values list of the addressed table).
    b = request body (bytes after the function code), tbl = (start, values) of the table fc addresses."""
    off = 0 if zero_mode else 1
    start, vals = tbl
    vals = list(vals)
    if fc in (1, 2, 3, 4):
        addr, qty = u16(b, 0), u16(b, 2)
        if not (1 <= qty <= READ_LIMIT[fc]):
            return exc(fc, 3), vals
        if not inside(tbl, addr + off, qty):
            return exc(fc, 2), vals
        i0 = addr + off - start
        data = [vals[i0 + i] for i in range(qty)]
        if fc in (1, 2):
            payload = pack_bits(data)
            return bytes([fc, (qty + 7) // 8]) + payload, vals
        out = bytes([fc, 2 * qty])
        for v in data:
            out = out + be16(v)
        return out, vals
    if fc == 5:
        addr, word = u16(b, 0), u16(b, 2)
        if not ((word == 0) or (word == 0xFF00)):
            return exc(fc, 3), vals
        if not inside(tbl, addr + off, 1):
            return exc(fc, 2), vals
        vals[addr + off - start] = (word == 0xFF00)
        return bytes([fc]) + b[0:4], vals
    if fc == 6:
        addr, word = u16(b, 0), u16(b, 2)
        if not inside(tbl, addr + off, 1):
            return exc(fc, 2), vals
        vals[addr + off - start] = word
        return bytes([fc]) + b[0:4], vals
    if fc == 15:
        addr, qty, bc = u16(b, 0), u16(b, 2), b[4]
        if not (1 <= qty <= 1968) or bc != (qty + 7) // 8 or len(b) < 5 + bc:
            return exc(fc, 3), vals
        if not inside(tbl, addr + off, qty):
            return exc(fc, 2), vals
        i0 = addr + off - start
        for i in range(qty):
            vals[i0 + i] = bit_of(b[5 + i // 8], i % 8)
        return bytes([fc]) + b[0:4], vals
    if fc == 16:
        addr, qty, bc = u16(b, 0), u16(b, 2), b[4]
        if not (1 <= qty <= 123) or bc != 2 * qty or len(b) < 5 + bc:
            return exc(fc, 3), vals
        if not inside(tbl, addr + off, qty):
            return exc(fc, 2), vals
        i0 = addr + off - start
        for i in range(qty):
            vals[i0 + i] = u16(b, 5 + 2 * i)
        return bytes([fc]) + b[0:4], vals
    if fc == 22:
        addr, am, om = u16(b, 0), u16(b, 2), u16(b, 4)
        if not inside(tbl, addr + off, 1):
            return exc(fc, 2), vals
        cur = vals[addr + off - start]
        # Result = (Current Contents AND And_Mask) OR (Or_Mask AND (NOT And_Mask))
        vals[addr + off - start] = bitor16(bitand16(cur, am), bitand16(om, bitnot16(am)))
        return bytes([fc]) + b[0:6], vals
    if fc == 23:
        raddr, rqty, waddr, wqty, bc = u16(b, 0), u16(b, 2), u16(b, 4), u16(b, 6), b[8]
        if not (1 <= rqty <= 125) or not (1 <= wqty <= 121) or bc != 2 * wqty or len(b) < 9 + bc:
            return exc(fc, 3), vals
        if not inside(tbl, raddr + off, rqty) or not inside(tbl, waddr + off, wqty):
            return exc(fc, 2), vals
        w0 = waddr + off - start
        for i in range(wqty):
            vals[w0 + i] = u16(b, 9 + 2 * i)          # the write is performed before the read
        r0 = raddr + off - start
        out = bytes([fc, 2 * rqty])
        for i in range(rqty):
            out = out + be16(vals[r0 + i])
        return out, vals
    raise ValueError(fc)
