"""Reference ADUs per transport framing (Modbus Messaging on TCP/IP v1.0b section 3.1, Modbus over Serial Line
v1.02 sections 2.5.1 / 2.5.2; TLS = bare PDU as in MODBUS/TCP Security; 'binary' is pymodbus' own
'{' unit fc payload-with-doubled-delimiters crc '}' framing as documented in its framer docstring)."""
from engine.hlib import lohi, crc16, hex2

FRAMERS = ["tcp", "rtu", "ascii", "binary", "tls"]


def framer_class(name):
    import pymodbus.transaction as T
    return {"tcp": T.ModbusSocketFramer, "rtu": T.ModbusRtuFramer, "ascii": T.ModbusAsciiFramer,
            "binary": T.ModbusBinaryFramer, "tls": T.ModbusTlsFramer}[name]


def ref_adu(framing, pdu, unit, tidb=b"\x00\x00", pidb=b"\x00\x00"):
    """pdu = function code byte + body (bytes, possibly symbolic); tidb/pidb = big-endian transaction / protocol id"""
    if framing == "tcp":
        n = len(pdu) + 1
        return tidb + pidb + bytes([n // 256, n % 256, unit]) + pdu
    if framing == "tls":
        return pdu
    if framing == "rtu":
        body = bytes([unit]) + pdu
        c = crc16(body)
        return body + bytes(lohi(c))
    if framing == "ascii":
        body = bytes([unit]) + pdu
        s = 0
        for i in range(len(body)):
            s = s + body[i]
        lrc = (-s) % 256
        out = b":"
        for i in range(len(body)):
            out = out + hex2(body[i])
        return out + hex2(lrc) + b"\r\n"
    if framing == "binary":
        # pymodbus binary framing: start '{', unit, function code, payload, CRC-16 as on RTU, end '}'.
        # (delimiter bytes inside the frame are doubled by the sender; this reference is for frames without them)
        body = bytes([unit]) + pdu
        c = crc16(body)
        return b"{" + body + bytes(lohi(c)) + b"}"
    raise ValueError(framing)


def binary_clean(unit, pdu):
    """no '{' / '}' byte in unit, PDU or CRC of a binary frame (frames with one are C03's listed finding
    KF-binary-delimiters: the receiver never un-escapes them)"""
    body = bytes([unit]) + pdu
    lo, hi = lohi(crc16(body))
    hit = (lo == 0x7B) | (lo == 0x7D) | (hi == 0x7B) | (hi == 0x7D)
    for i in range(len(body)):
        hit = hit | (body[i] == 0x7B) | (body[i] == 0x7D)
    from engine.hlib import lnot
    return lnot(hit)


def ref_adu_clean(framing, pdu, unit, tidb=b"\x00\x00", pidb=b"\x00\x00"):
    """ref_adu for harnesses whose subject is not the binary framer's delimiter handling: binary frames containing a
    delimiter byte are assumed away (C03 owns that finding and its witness)"""
    if framing == "binary":
        from engine.hlib import assume
        assume(binary_clean(unit, pdu))
    return ref_adu(framing, pdu, unit, tidb, pidb)


def carries_unit(framing):
    return framing in ("tcp", "rtu", "ascii", "binary")
