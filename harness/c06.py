"""C06 -- framing is independent of how the byte stream is chunked.

chunk.<framing>.<dir>.<classes>.cuts<k>: a stream of 1-2 valid frames (reference ADUs, all field values, unit ids and
transaction ids symbolic) is fed to a fresh framer under EVERY schedule with exactly k cuts (cut positions concrete and
enumerated inside the harness, repeated positions = empty reads). Asserted for every schedule: the callbacks are exactly
the stream's messages, in order, and no exception escapes processIncomingPacket.
"""
import itertools

from engine.hlib import lohi, assume, same, explain, known
from engine.obl import Obl
from spec import pdu, adu
from harness.c01 import fields_equal, _decoder, needs_bits

LEVEL = "model_checking"
EXPLANATION = ("Bounded symbolic model checking of the receive path (processIncomingPacket, isFrameReady, checkFrame, advanceFrame, "
               "resetFrame, populateHeader) of the TCP, RTU, ASCII and binary framers over symbolic frame contents, for every way of "
               "cutting the stream with up to k cuts.")
ASSUMPTIONS = ["streams of 1..2 valid frames; frames <= 13 bytes (ASCII <= 27 characters); cuts: quick 0..2, thorough 0..3 plus the all-single-bytes schedule",
               "checksums appear as contracts (K1/K2); only valid frames are fed (noise is C11/C07's subject)",
               "binary framing: frames containing delimiter bytes are C03's known finding and are assumed away"]


def schedules(L, k):
    """all ways to cut a stream of L bytes with exactly k cuts (positions 0..L, repetition allowed = empty reads)"""
    return list(itertools.combinations_with_replacement(range(0, L + 1), k))


def split(stream, cuts):
    out, prev = [], 0
    for c in cuts:
        out.append(stream[prev:c])
        prev = c
    out.append(stream[prev:])
    return out


def make_chunk(framing, specs, shapes, ncuts, single_bytes=False):
    lens = [S.blen(sh) for S, sh in zip(specs, shapes)]
    n = len(specs)

    def run(hdrs, bodies):
        F = adu.framer_class(framing)
        frames, exp = [], []
        for i in range(n):
            S, sh, hdr, b = specs[i], shapes[i], hdrs[i], bodies[i]
            assume(len(hdr) == 5)
            assume(len(b) == lens[i])
            for c in S.wf(b, sh):
                assume(c)
            pdu_bytes = bytes([S.fc]) + b
            if framing == "binary":
                from harness.c14 import crc16
                c16 = crc16(bytes([hdr[4]]) + pdu_bytes)
                hit = (hdr[4] == 0x7B) | (hdr[4] == 0x7D) | (lohi(c16)[0] == 0x7B) | (lohi(c16)[0] == 0x7D) | (lohi(c16)[1] == 0x7B) | (lohi(c16)[1] == 0x7D)
                for j in range(len(pdu_bytes)):
                    hit = hit | (pdu_bytes[j] == 0x7B) | (pdu_bytes[j] == 0x7D)
                assume(not hit)
            frames.append(adu.ref_adu(framing, pdu_bytes, hdr[4], hdr[0:2], hdr[2:4]))
            exp.append((S, sh, b, hdr))
        # all frames carry the same unit id so that one receiver accepts them all
        for i in range(1, n):
            assume(hdrs[i][4] == hdrs[0][4])
        stream = b"".join(frames)
        L = len(stream)
        scheds = [tuple(range(1, L))] if single_bytes else schedules(L, ncuts)
        for cuts in scheds:
            rx = F(_decoder(specs[0].dir))
            got = []
            for chunk in split(stream, cuts):
                try:
                    rx.processIncomingPacket(chunk, got.append, hdrs[0][4])
                except Exception as e:     # noqa -- "no exception escapes the receive call"
                    explain("schedule %r: %s escaped processIncomingPacket: %s", cuts, type(e).__name__, e)
                    return False
            if len(got) != n:
                explain("schedule %r: %d messages delivered, %d frames sent", cuts, len(got), n)
                return False
            for r, (S, sh, b, hdr) in zip(got, exp):
                if type(r).__name__ != S.name:
                    explain("schedule %r: delivered %s, expected %s", cuts, type(r).__name__, S.name)
                    return False
                direct = _decoder(S.dir).decode(bytes([S.fc]) + b)
                if not fields_equal(S.get(r, sh), S.get(direct, sh)):
                    explain("schedule %r: fields differ", cuts)
                    return False
                if r.unit_id != hdr[4]:
                    explain("schedule %r: unit id", cuts)
                    return False
                if framing == "tcp" and r.transaction_id != hdr[0] * 256 + hdr[1]:
                    explain("schedule %r: transaction id", cuts)
                    return False
        return True

    if n == 1:
        def chunk(h0: bytes, b0: bytes) -> bool:
            return run([h0], [b0])
    else:
        def chunk(h0: bytes, b0: bytes, h1: bytes, b1: bytes) -> bool:
            return run([h0, h1], [b0, b1])
    return chunk


def make_big_ascii(nregs):
    """a maximum-size ASCII frame (read-registers response with nregs registers): unit, the first two and the last two
    registers symbolic, the rest a fixed pattern; one cut at every position of a spread that includes the last 10"""
    def big(u: int, e: bytes) -> bool:
        from pymodbus.factory import ClientDecoder
        assume(len(e) == 8)
        assume(1 <= u <= 247)
        mid = bytes((i * 7 + 3) % 256 for i in range(2 * nregs - 8))
        body = bytes([2 * nregs]) + e[0:4] + mid + e[4:8]
        frame = adu.ref_adu("ascii", bytes([3]) + body, u)
        small = adu.ref_adu("ascii", bytes([3, 2, e[0], e[1]]), u)
        stream = frame + small
        L = len(frame)
        cuts = sorted(set([1, 2, 9, L // 3, L // 2, L - 40] + list(range(L - 10, L + 1)) + [L + 3]))
        F = adu.framer_class("ascii")
        for c in cuts:
            rx = F(ClientDecoder())
            got = []
            for chunk in (stream[:c], stream[c:]):
                try:
                    rx.processIncomingPacket(chunk, got.append, u)
                except Exception as ex:
                    explain("cut %d: %s escaped: %s", c, type(ex).__name__, ex)
                    return False
            if len(got) != 2:
                explain("cut at %d of a %d-character frame: %d messages delivered instead of 2", c, L, len(got))
                return False
            r = got[0]
            if type(r).__name__ != "ReadHoldingRegistersResponse" or len(r.registers) != nregs:
                return False
            if r.registers[0] != e[0] * 256 + e[1] or r.registers[nregs - 1] != e[6] * 256 + e[7]:
                return False
            if got[1].registers != [e[0] * 256 + e[1]]:
                return False
        return True
    return big


CONTRACTS = {"tcp": (), "rtu": ("crc",), "binary": ("crc",), "ascii": ("lrc",)}
LEMMAS = {"tcp": (), "rtu": ("K1",), "binary": ("K1",), "ascii": ("K2",)}


def whole(framing, nframes, ncuts):
    """obligations wholly inside a listed known finding"""
    if framing == "tcp" and ncuts > 0:
        return "KF-tcp-split-frames"
    if framing == "rtu" and (ncuts > 0 or nframes > 1):
        return "KF-rtu-split-or-multiple-frames"
    if framing == "binary" and (ncuts > 0 or nframes > 1):
        return "KF-binary-split-or-multiple-frames"
    return None


def obligations(tier):
    from harness import kernels
    T = 240 if tier == "quick" else 1800
    by = {S.name: S for S in pdu.all_specs()}
    out = [kernels.K1(tier), kernels.K2(tier)]
    combos = {
        # (the last pair ends in a request without data: the shortest frame there is, 8 bytes on TCP)
        "req": [("WriteSingleRegisterRequest",), ("ReadCoilsRequest", "WriteSingleRegisterRequest"),
                ("WriteSingleRegisterRequest", "ReadExceptionStatusRequest")],
        "rsp": [("ReadHoldingRegistersResponse",), ("WriteSingleCoilResponse", "ReadHoldingRegistersResponse")],
    }
    if tier != "quick":
        combos["req"] += [("WriteMultipleRegistersRequest",), ("MaskWriteRegisterRequest", "ReadExceptionStatusRequest")]
        combos["rsp"] += [("ReadCoilsResponse",), ("ReadExceptionStatusResponse", "WriteMultipleRegistersResponse")]
    maxcuts = 2 if tier == "quick" else 3
    for framing in ("tcp", "rtu", "ascii", "binary"):
        for d in ("req", "rsp"):
            for names in combos[d]:
                specs = [by[nm] for nm in names]
                shapes = [S.shapes("quick")[0] for S in specs]
                contracts = CONTRACTS[framing] + (("bits",) if any(needs_bits(S) for S in specs) else ())
                for k in range(0, maxcuts + 1):
                    if tier == "quick" and framing == "ascii" and k == 2 and len(names) == 2:
                        continue      # two ASCII frames x every pair of cuts: thorough tier
                    if tier == "quick" and names[-1] == "ReadExceptionStatusRequest" and k == 2:
                        continue
                    name = "chunk.%s.%s.%s.cuts%d" % (framing, d, "+".join(n.replace("Request", "Rq").replace("Response", "Rs") for n in names), k)
                    out.append(Obl(name, make_chunk(framing, specs, shapes, k), timeout=T, contracts=contracts,
                                   lemmas=LEMMAS[framing], whole_finding=whole(framing, len(names), k),
                                   bounds="%s framing, stream of %d frame(s) %s with all field values/unit/tid symbolic; every schedule with exactly %d cut(s) (empty reads included)" % (
                                       framing, len(names), list(names), k)))
                if tier != "quick":
                    name = "chunk.%s.%s.%s.single-bytes" % (framing, d, "+".join(names))
                    out.append(Obl(name, make_chunk(framing, specs, shapes, 0, single_bytes=True), timeout=T, contracts=contracts,
                                   lemmas=LEMMAS[framing], whole_finding=whole(framing, len(names), 99),
                                   bounds="%s framing, %d frame(s), delivered one byte per read" % (framing, len(names))))
    for n in ([125] if tier == "quick" else [124, 125, 123]):
        out.append(Obl("chunk.ascii.rsp.max-size[%d].cuts1" % n, make_big_ascii(n), timeout=T * 2, contracts=("lrc",), lemmas=("K2",),
                       bounds="ASCII framing, a %d-register read response (%d characters) followed by a short frame; unit, first and last registers symbolic, other registers a fixed pattern; one cut at each of ~20 positions incl. the last 10 of the big frame" % (n, 2 * (2 * n + 3) + 5)))
    return out
