"""C07 -- corrupted frames are never delivered as messages.

just.<framing>.<dir>.fc<N>.len<L>: for ANY byte string B of length L (every byte symbolic except the function-code
position, which is fixed per obligation) fed to a fresh receiver in one read, every message handed to the callback is
justified: it is the object the decoder returned for some PDU, and B contains a frame carrying exactly that PDU whose
integrity check holds (CRC-16 low byte first on RTU and binary, LRC over valid hex on ASCII, MBAP length consistent
with the bytes on TCP) and whose unit id (and transaction/protocol id on TCP) are the ones delivered.
This is stronger than mutating valid frames: every corruption, truncation or extension of a frame is some B.
K5.*: error-detection strength of the standard checksums (properties of CRC-16/Modbus and the LRC themselves,
tied to pymodbus' code by K1/K2): the 'consequently' clause of the property.
"""
import z3

from engine.hlib import lohi, assume, same, explain, known, crc16, hexpair, is_hex
from engine.obl import Obl
from spec import adu, checksums

LEVEL = "model_checking"
EXPLANATION = ("Bounded symbolic model checking of the four framers' receive paths over arbitrary buffers: delivery implies a frame "
               "with a valid integrity check in the buffer (reference recogniser written from the serial-line / TCP specs); plus SMT lemmas "
               "on the error-detection strength of CRC-16/Modbus and LRC.")
ASSUMPTIONS = ["one read into a fresh receiver; buffer lengths as named per obligation; the function-code byte(s) are concrete per obligation",
               "the decoder is observed through a recording wrapper (which PDU bytes it was given, which object it returned); what it decodes them to is C01's subject",
               "computeCRC/computeLRC appear as contracts (K1/K2)",
               "K5: frames up to the stated number of bytes"]


class SpyDecoder(object):
    """records the framer -> decoder interface"""
    def __init__(self, real):
        self.real = real
        self.log = []

    def decode(self, data):
        r = self.real.decode(data)
        self.log.append((data, r))
        return r

    def lookupPduClass(self, fc):
        return self.real.lookupPduClass(fc)


def _dec(d):
    from pymodbus.factory import ServerDecoder, ClientDecoder
    return SpyDecoder(ServerDecoder() if d == "req" else ClientDecoder())


def pdu_of(spy, r):
    for data, res in spy.log:
        if res is r:
            return data
    return None


def bytes_eq(a, b):
    """length-then-content equality without concretising more than needed"""
    if len(a) != len(b):
        return False
    return a == b


def just_rtu(B, pdu, r):
    L = len(B)
    for n in range(4, L + 1):
        if len(pdu) == n - 3:
            c = crc16(B[:n - 2])
            if (B[n - 2] == lohi(c)[0]) and (B[n - 1] == lohi(c)[1]) and bytes_eq(B[1:n - 2], pdu) and r.unit_id == B[0]:
                return True
    return False


def just_binary(B, pdu, r):
    L = len(B)
    for s in range(0, L):
        for e in range(s + 5, L):
            if len(pdu) == e - s - 4:
                if B[s] == 0x7B and B[e] == 0x7D:
                    body = B[s + 1:e - 2]
                    c = crc16(body)
                    # binary framing sends the CRC as RTU does
                    if (B[e - 2] == lohi(c)[0]) and (B[e - 1] == lohi(c)[1]) and bytes_eq(body[1:], pdu) and r.unit_id == body[0]:
                        return True
    return False


def just_ascii(B, pdu, r):
    L = len(B)
    for s in range(0, L):
        for e in range(s + 7, L - 1, 2):          # s=':' ... e='\r', e+1='\n'; (e-s-1) hex chars, even, >= 6
            nbytes = (e - s - 1) // 2
            if len(pdu) != nbytes - 2:
                continue
            if not (B[s] == 0x3A and B[e] == 0x0D and B[e + 1] == 0x0A):
                continue
            ok = True
            vals = []
            for i in range(nbytes):
                v_ok, v = hexpair(B[s + 1 + 2 * i], B[s + 2 + 2 * i])
                if not v_ok:
                    ok = False
                    break
                vals.append(v)
            if not ok:
                continue
            total = 0
            for v in vals[:-1]:
                total = total + v
            if (-total) % 256 != vals[-1]:
                continue
            same_pdu = True
            for i in range(len(pdu)):
                if pdu[i] != vals[1 + i]:
                    same_pdu = False
                    break
            if same_pdu and r.unit_id == vals[0]:
                return True
    return False


def just_tcp(B, pdu, r):
    L = len(B)
    for o in range(0, L - 7):
        for n in range(2, L - o - 6 + 1):
            if len(pdu) == n - 1:
                if B[o + 4] * 256 + B[o + 5] == n and bytes_eq(B[o + 7:o + 6 + n], pdu):
                    if r.unit_id == B[o + 6] and r.transaction_id == B[o] * 256 + B[o + 1] and r.protocol_id == B[o + 2] * 256 + B[o + 3]:
                        return True
    return False


JUST = {"rtu": just_rtu, "binary": just_binary, "ascii": just_ascii, "tcp": just_tcp}

# PDU length (function code included) of the fixed-format messages: protocol facts. A frame whose announced length
# hands the decoder MORE bytes than the message has is not "consistent with the PDU" even if every announced byte is there.
# (only the data-access messages: the decoders of the requests without data and of the status/counter responses read
#  what they need and ignore the rest on this tree; that leniency is not judged here)
FIXED_PDU_LEN = {"req": {1: 5, 2: 5, 3: 5, 4: 5, 5: 5, 6: 5, 22: 7},
                 "rsp": {5: 5, 6: 5, 15: 5, 16: 5, 22: 7}}
FCPOS = {"rtu": 1, "binary": 2, "tcp": 7}


class _ClientStub(object):
    """what a synchronous client hands its framer as `client`: the framer may look at it, the bytes are what count"""
    state = 0
    silent_interval = 0
    last_frame_end = 0
    timeout = 1


def make_just(framing, d, fc, L, with_client=False):
    def just(B: bytes) -> bool:
        assume(len(B) == L)
        if framing == "ascii":
            # ':' uu ff ...: the two function-code characters are fixed (upper-case hex, as senders emit)
            hx = b"%02X" % fc
            assume(B[0] == 0x3A)
            assume(B[3] == hx[0])
            assume(B[4] == hx[1])
        elif framing == "binary":
            assume(B[0] == 0x7B)
            assume(B[FCPOS[framing]] == fc)
        elif L > FCPOS[framing]:
            assume(B[FCPOS[framing]] == fc)
        if with_client and framing == "tcp":
            assume(B[4] == 0)
            assume(B[5] <= 16)          # announced MBAP length 0..16 (longer and shorter than the buffer both included)
        # (a buffer too short to hold a function-code byte is wholly symbolic)
        spy = _dec(d)
        rx = adu.framer_class(framing)(spy, _ClientStub()) if with_client else adu.framer_class(framing)(spy)
        got = []
        try:
            rx.processIncomingPacket(B, got.append, 0)        # unit 0 in the accepted list = accept every unit id
        except Exception:
            pass                                              # whether exceptions may escape is C12's subject
        for r in got:
            pdu = pdu_of(spy, r)
            if pdu is None:
                explain("delivered object did not come from the decoder")
                return False
            want = FIXED_PDU_LEN[d].get(getattr(r, "function_code", None))
            if want is not None and len(pdu) != want and getattr(r, "function_code", 0) < 0x80:
                explain("delivered %s from a PDU of %d bytes; that message has %d", type(r).__name__, len(pdu), want)
                return False
            if not JUST[framing](B, pdu, r):
                if framing == "tcp":
                    known("KF-tcp-headerless-error-frame", _is_headerless(B, pdu))

                explain("delivered %s (unit %r) for PDU %r: no frame with a valid integrity check in the buffer carries it",
                        type(r).__name__, getattr(r, "unit_id", None), bytes(pdu))
                return False
        return True
    return just


def _is_headerless(B, pdu):
    """region of KF-tcp-headerless-error-frame: the 'PDU' handed to the decoder is the raw tail of the buffer
    (at most 7 bytes, i.e. no room for an MBAP header in front of it) and what precedes it is nothing or one whole
    frame -- i.e. the tail is a leftover, not the payload behind a parsed header (a truncated frame is not this finding)"""
    n = len(pdu)
    if not (n <= 7 and bytes_eq(B[len(B) - n:], pdu)):
        return False
    pre = len(B) - n
    if pre == 0:
        return True
    if pre < 8:
        return False
    return B[4] * 256 + B[5] == pre - 6


def _lenient_lrc(B):
    """region of KF-ascii-lenient-lrc-field: some CR LF in the buffer is preceded by an LRC field containing one of the
    non-hex characters int() tolerates (whitespace, sign, underscore). Other non-hex characters stay in scope."""
    def special(c):
        r = False
        for sp in (9, 10, 11, 12, 13, 32, 43, 45, 95):
            r = r | (c == sp)
        return r
    hit = False
    for e in range(3, len(B) - 1):
        hit = hit | ((B[e] == 0x0D) & (B[e + 1] == 0x0A) & (special(B[e - 2]) | special(B[e - 1])))
    return hit


# ------------------------------------------------------------------------------------------------ K5 lemmas
def _crc_bv(data_bytes, W=16):
    st = z3.BitVecVal(0xFFFF, W)
    for b in data_bytes:
        st = checksums.z3_crc_step(st, z3.ZeroExt(W - 8, b), W)
    return st


def k5_crc(nbytes, kind):
    """no error pattern of weight 1..3 (kind='bits') / no burst of length <= 16 (kind='burst') in a frame of nbytes
    (data + 2 CRC bytes) leaves the CRC check satisfied"""
    def run():
        from engine.pysym import Prover
        import time
        p = Prover(timeout_ms=600000)
        nd = nbytes - 2
        d = [z3.BitVec("d%d" % i, 8) for i in range(nd)]
        e = [z3.BitVec("e%d" % i, 8) for i in range(nbytes)]
        crc = _crc_bv(d)
        frame = d + [z3.Extract(7, 0, crc), z3.Extract(15, 8, crc)]
        bad = [f ^ x for f, x in zip(frame, e)]
        crc2 = _crc_bv(bad[:nd])
        accepted = z3.And(bad[nd] == z3.Extract(7, 0, crc2), bad[nd + 1] == z3.Extract(15, 8, crc2))
        # error bits in TRANSMISSION order: byte by byte, least significant bit first (serial line; reflected CRC)
        seq = [z3.Extract(k, k, e[i]) for i in range(nbytes) for k in range(8)]
        nb = len(seq)
        one = z3.BitVecVal(1, 1)
        if kind == "bits":
            ones = z3.Sum([z3.ZeroExt(7, b) for b in seq])
            cond = z3.And(z3.UGE(ones, 1), z3.ULE(ones, 3))
        else:
            # burst: all set bits lie within a window of 16 consecutive transmitted bits, and e != 0
            alts = []
            for start in range(0, max(1, nb - 15)):
                outside = [seq[i] for i in range(nb) if not (start <= i < start + 16)]
                alts.append(z3.And(*[b == z3.BitVecVal(0, 1) for b in outside]) if outside else z3.BoolVal(True))
            cond = z3.And(z3.Or(*[b == one for b in seq]), z3.Or(*alts))
        st, m = p.valid(z3.Not(z3.And(cond, accepted)), [], "K5 CRC-16/Modbus detects every %s error in %d-byte frames" % (kind, nbytes))
        cex = None
        if st == "refuted":
            cex = {"data": [m.eval(x, model_completion=True).as_long() for x in d],
                   "error": [m.eval(x, model_completion=True).as_long() for x in e]}
        return {"status": {"proved": "CONFIRMED", "refuted": "REFUTED"}.get(st, "UNKNOWN"), "queries": p.queries,
                "solver_secs": round(p.secs, 2), "detail": "frame of %d bytes, %s" % (nbytes, kind), "cex": cex}
    return run


def k5_crc_replay(cex):
    d = bytes(cex["data"])
    frame = bytearray(d + checksums.crc_wire(d))
    for i, x in enumerate(cex["error"]):
        frame[i] ^= x
    ok = checksums.crc_wire(bytes(frame[:-2])) == bytes(frame[-2:])
    return {"fails": ok and any(cex["error"]), "observed": "corrupted frame %r accepted=%r" % (bytes(frame), ok)}


def k5_lrc(nbytes):
    def run():
        from engine.pysym import Prover
        p = Prover()
        d = [z3.Int("d%d" % i) for i in range(nbytes)]
        rng = [z3.And(x >= 0, x <= 255) for x in d]
        lrc = (-z3.Sum(d)) % 256
        ok, unk = True, False
        for i in range(nbytes):
            x = z3.Int("x")
            changed = [x if j == i else d[j] for j in range(nbytes)]
            claim = z3.Implies(z3.And(x >= 0, x <= 255, x != d[i]), (-z3.Sum(changed)) % 256 != lrc)
            st, m = p.valid(claim, rng, "LRC changes when byte %d changes" % i)
            ok = ok and st == "proved"
            unk = unk or st == "unknown"
        y = z3.Int("y")
        st, m = p.valid(z3.Implies(z3.And(y >= 0, y <= 255, y != lrc), y != lrc), rng, "a changed LRC byte does not match")
        ok = ok and st == "proved"
        return {"status": "CONFIRMED" if ok else "UNKNOWN", "queries": p.queries, "solver_secs": round(p.secs, 2),
                "detail": "every single-byte (hence single-character) change of a %d-byte ASCII frame body is detected" % nbytes, "cex": None}
    return run


def obligations(tier):
    from harness import kernels
    T = 240 if tier == "quick" else 1800
    out = [kernels.K1(tier), kernels.K2(tier)]
    nb = 6 if tier == "quick" else 10
    out.append(Obl("K5.crc.bits", kind="smt", run=k5_crc(nb, "bits"), replay=k5_crc_replay, timeout=900,
                   bounds="all frames of %d bytes (data + CRC), all error patterns of 1..3 flipped bits" % nb,
                   functions=["spec/checksums.py (reference CRC-16/Modbus; tied to pymodbus.utilities.computeCRC by K1)"]))
    out.append(Obl("K5.crc.burst", kind="smt", run=k5_crc(nb, "burst"), replay=k5_crc_replay, timeout=900,
                   bounds="all frames of %d bytes, all error bursts of length <= 16 bits" % nb,
                   functions=["spec/checksums.py (reference CRC-16/Modbus)"]))
    out.append(Obl("K5.lrc", kind="smt", run=k5_lrc(8 if tier == "quick" else 16), replay=lambda c: {"fails": False, "observed": ""}, timeout=300,
                   bounds="ASCII frame bodies of %d bytes" % (8 if tier == "quick" else 16), functions=["spec/checksums.py lrc (tied to computeLRC by K2)"]))
    fcs = {"req": [3, 6, 16, 7, 0x55, 0x83], "rsp": [3, 6, 7, 0x83]}
    if tier != "quick":
        fcs = {"req": [1, 3, 5, 6, 15, 16, 22, 23, 8, 43, 0x55, 0x83], "rsp": [1, 3, 5, 6, 16, 22, 23, 8, 0x55, 0x83]}
    lens = {"rtu": [7, 8, 9] if tier == "quick" else [5, 7, 8, 9, 10, 11], "binary": [10] if tier == "quick" else [9, 10, 11, 12],
            "tcp": [9, 12] if tier == "quick" else [2, 8, 9, 12, 14], "ascii": [11, 17] if tier == "quick" else [11, 13, 17, 19]}
    # short buffers: the CRC is encoded exactly (bit-vector definition), so that a changed acceptance test that is only
    # equivalent to the CRC comparison by CRC algebra (e.g. "remainder over the whole frame is zero") is still decided
    contracts = {"tcp": (), "rtu": ("crc-exact",), "binary": ("crc-exact",), "ascii": ("lrc",)}
    lem = {"tcp": (), "rtu": ("K1",), "binary": ("K1",), "ascii": ("K2",)}
    for framing in ("rtu", "binary", "ascii", "tcp"):
        for d in ("req", "rsp"):
            for fc in fcs[d]:
                if tier == "quick" and framing == "ascii" and fc not in (6, 7, 0x83):
                    continue
                for L in lens[framing]:
                    out.append(Obl("just.%s.%s.fc%d.len%d" % (framing, d, fc, L), make_just(framing, d, fc, L), timeout=T,
                                   contracts=contracts[framing], lemmas=lem[framing],
                                   findings=(("KF-tcp-headerless-error-frame",) if framing == "tcp" and fc in (3, 0x55) and L == 12 else ()),
                                   bounds="%s framing, %s decoder, any %d-byte buffer whose function-code byte is 0x%02X, one read" % (framing, d, L, fc)))
    # a fixed-format request with room for trailing bytes behind it (announced length symbolic)
    for fc, L in (((22, 15),) if tier == "quick" else ((22, 15), (6, 13), (3, 13), (5, 14))):
        out.append(Obl("just.tcp.req.fc%d.len%d" % (fc, L), make_just("tcp", "req", fc, L), timeout=T,
                       bounds="tcp framing, server decoder, any %d-byte buffer whose function-code byte is 0x%02X (room for bytes behind a fixed-format PDU), one read" % (L, fc)))
    # the same question for a framer constructed the way the synchronous clients construct it (with a client object)
    for framing, L in (("tcp", 9), ("tcp", 12), ("rtu", 7)) if tier == "quick" else (("tcp", 9), ("tcp", 10), ("tcp", 12), ("rtu", 7), ("rtu", 8), ("ascii", 13)):
        for fc in ((1, 3) if tier == "quick" else (1, 2, 3, 17, 24, 43, 0x83)):
            out.append(Obl("just.%s-client.rsp.fc%d.len%d" % (framing, fc, L), make_just(framing, "rsp", fc, L, with_client=True), timeout=T,
                           contracts=contracts[framing], lemmas=lem[framing],
                           findings=(("KF-tcp-headerless-error-frame",) if framing == "tcp" and fc == 3 and L == 12 else ()),
                           bounds="%s framing, client decoder, framer constructed with a client object (as the synchronous clients do): any %d-byte buffer whose function-code byte is 0x%02X (TCP: announced length 0..16), one read" % (framing, L, fc)))
    return out
