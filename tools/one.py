"""debug: run one obligation in-process.  usage: one.py <module> <tier> <name> [mode] [timeout] [-v]"""
import sys, json, os
sys.path.insert(0, '/verif')
sys.setrecursionlimit(10000)
from engine import chcore, chplugin, hlib
from engine.worker import find
m, tier, name = sys.argv[1:4]
mode = sys.argv[4] if len(sys.argv) > 4 else 'main'
to = float(sys.argv[5]) if len(sys.argv) > 5 else None
o = find(m, tier, name)
if o.kind == 'smt':
    print(json.dumps(o.run(), indent=1)); sys.exit()
chplugin.install(contracts=o.contracts)
hlib.STATE['symbolic'] = True
if '-v' in sys.argv:
    from crosshair.util import set_debug
    set_debug(True)
if mode.startswith('witness:'):
    hlib.STATE['witness'] = mode.split(':',1)[1]; mode = 'main'
r = chcore.analyze(o.fn, mode, timeout=to or o.timeout, per_path_timeout=o.per_path_timeout or max(10.0, o.timeout / 3.0))
r.pop('functions', None)
print(json.dumps(r, indent=1)[:6000])
