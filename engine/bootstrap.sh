#!/bin/bash
# Idempotent: (re)create the overlay venv /verif/.venv with crosshair-tool + z3 from the offline wheelhouse.
# The venv sees /venv's site-packages (pymodbus deps: six, twisted, serial) and /repo (pymodbus itself, working tree).
set -e
HERE=$(cd "$(dirname "$0")/.." && pwd)
V=$HERE/.venv
REPO=${VERIF_REPO:-/repo}
if [ -x "$V/bin/python" ] && "$V/bin/python" -c "import crosshair, z3, six" 2>/dev/null; then
  :
else
  rm -rf "$V"
  /venv/bin/python -m venv "$V"
  SP=$("$V/bin/python" -c "import sysconfig; print(sysconfig.get_paths()['purelib'])")
  printf '/venv/lib/python3.12/site-packages\n' > "$SP/_aaa_repo_overlay.pth"
  PIP_NO_INDEX=1 "$V/bin/pip" install -q --no-index --find-links /opt/veriftools/wheels crosshair-tool z3-solver >/dev/null
fi
SP=$("$V/bin/python" -c "import sysconfig; print(sysconfig.get_paths()['purelib'])")
# the repository under analysis comes first so that it wins over /venv's editable install of /repo
printf '%s\n/venv/lib/python3.12/site-packages\n' "$REPO" > "$SP/_aaa_repo_overlay.pth"
rm -f "$SP/_overlay.pth"
"$V/bin/python" -c "import crosshair, z3, pymodbus, six" 
