"""poor man's pyflakes (none is installed): report names that are read in a function but bound nowhere
(module level, enclosing functions, builtins).  usage: lint.py file..."""
import ast, builtins, sys


def bound_names(node):
    out = set()
    for n in ast.walk(node):
        if isinstance(n, ast.Name) and isinstance(n.ctx, (ast.Store, ast.Del)):
            out.add(n.id)
        elif isinstance(n, (ast.FunctionDef, ast.AsyncFunctionDef, ast.ClassDef)):
            out.add(n.name)
            if not isinstance(n, ast.ClassDef):
                a = n.args
                for x in a.args + a.kwonlyargs + a.posonlyargs + ([a.vararg] if a.vararg else []) + ([a.kwarg] if a.kwarg else []):
                    out.add(x.arg)
        elif isinstance(n, ast.Lambda):
            a = n.args
            for x in a.args + a.kwonlyargs + a.posonlyargs + ([a.vararg] if a.vararg else []) + ([a.kwarg] if a.kwarg else []):
                out.add(x.arg)
        elif isinstance(n, (ast.Import, ast.ImportFrom)):
            for al in n.names:
                out.add((al.asname or al.name).split(".")[0])
        elif isinstance(n, ast.ExceptHandler) and n.name:
            out.add(n.name)
        elif isinstance(n, (ast.Global, ast.Nonlocal)):
            out.update(n.names)
    return out


def main():
    bad = 0
    for path in sys.argv[1:]:
        tree = ast.parse(open(path).read(), path)
        # over-approximation of what is bound: every binding anywhere in the file counts for every scope
        known = set(dir(builtins)) | bound_names(tree) | {"__file__", "__name__", "__doc__"}
        for n in ast.walk(tree):
            if isinstance(n, ast.Name) and isinstance(n.ctx, ast.Load) and n.id not in known:
                print("%s:%d: undefined name %r" % (path, n.lineno, n.id))
                bad += 1
        # per function: names read that are bound only in OTHER functions (not module level, not here, not enclosing)
        module_level = set(dir(builtins)) | {"__file__", "__name__", "__doc__"}
        for st in tree.body:
            if isinstance(st, (ast.FunctionDef, ast.AsyncFunctionDef, ast.ClassDef)):
                module_level.add(st.name)
            elif isinstance(st, (ast.Import, ast.ImportFrom)):
                for al in st.names:
                    module_level.add((al.asname or al.name).split(".")[0])
            else:
                module_level |= bound_names(st)

        def visit(fn, env):
            env = env | bound_names(fn)
            for ch in ast.iter_child_nodes(fn):
                walk(ch, env)

        def walk(node, env):
            nonlocal bad
            if isinstance(node, (ast.FunctionDef, ast.AsyncFunctionDef, ast.Lambda)):
                visit(node, env)
                return
            if isinstance(node, ast.Name) and isinstance(node.ctx, ast.Load) and node.id not in env:
                print("%s:%d: name %r is not bound in this scope" % (path, node.lineno, node.id))
                bad += 1
            for ch in ast.iter_child_nodes(node):
                walk(ch, env)
        for st in tree.body:
            if isinstance(st, (ast.FunctionDef, ast.AsyncFunctionDef)):
                visit(st, module_level)
            elif isinstance(st, ast.ClassDef):
                for m in st.body:
                    if isinstance(m, (ast.FunctionDef, ast.AsyncFunctionDef)):
                        visit(m, module_level | bound_names(st))
    sys.exit(1 if bad else 0)


main()
