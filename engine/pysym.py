"""Engine B -- pysym: direct AST -> z3 translation of pure leaf kernels of /repo.

The function's source is read with inspect/ast from the imported (current working tree) module and
interpreted over a mixed concrete/symbolic environment. Branches on symbolic conditions are MERGED
into z3 If-terms (no path forking), loops must have concrete trip counts (unrolled).

Two integer encodings:
  mode="bv":  Python ints -> bit-vectors of width W. Every +, -, *, << emits a side condition
              (no unsigned overflow / no underflow) so that on every input satisfying the side conditions
              the BV term equals the mathematical (Python) result. Lemmas must prove the side conditions.
  mode="int": Python ints -> z3 Int (unbounded); bit operations unsupported.
Anything not understood raises Unsupported -> the lemma is reported inconclusive, never guessed.
"""
import ast
import inspect
import textwrap

import z3


class Unsupported(Exception):
    pass


class ForkNeeded(Exception):
    """the two branches of an `if` cannot be merged into one value (e.g. byte strings of different length): the caller
    re-runs the function once per side with the condition decided (run_function_paths)"""
    def __init__(self, cond, why):
        Exception.__init__(self, why)
        self.cond = cond


class SBytes(list):
    """bytes value: python list of byte terms (ints or z3 terms)."""


class Obj(object):
    """attribute bag standing for `self`."""
    def __init__(self, **kw):
        self.__dict__.update(kw)


class _Return(Exception):
    def __init__(self, value):
        self.value = value


def is_z(v):
    return isinstance(v, z3.ExprRef)


class Interp(object):
    def __init__(self, mode="bv", width=32, globs=None):
        self.mode = mode
        self.W = width
        self.globs = globs or {}
        self.side = []          # side conditions (z3 Bool) that must hold for BV == mathematical semantics
        self.path = []          # current path condition stack

    # ------------------------------------------------------------ values
    def lit(self, n):
        if self.mode == "bv":
            if n < 0 or n >= 2 ** self.W:
                raise Unsupported("literal %r out of BV range" % n)
            return z3.BitVecVal(n, self.W)
        return z3.IntVal(n)

    def var(self, name, lo=None, hi=None):
        v = z3.BitVec(name, self.W) if self.mode == "bv" else z3.Int(name)
        cons = []
        if lo is not None:
            cons.append(z3.UGE(v, self.lit(lo)) if self.mode == "bv" else v >= lo)
        if hi is not None:
            cons.append(z3.ULE(v, self.lit(hi)) if self.mode == "bv" else v <= hi)
        return v, cons

    def tz(self, v):
        """to z3 term"""
        if is_z(v):
            return v
        if isinstance(v, bool):
            return z3.BoolVal(v)
        if isinstance(v, int):
            return self.lit(v)
        raise Unsupported("cannot lift %r" % (v,))

    def guard(self, cond):
        pc = z3.And(*self.path) if self.path else z3.BoolVal(True)
        self.side.append(z3.Implies(pc, cond))

    def truth(self, v):
        if is_z(v):
            if z3.is_bool(v):
                return v
            return v != self.lit(0)
        return bool(v)

    # ------------------------------------------------------------ operators
    def binop(self, op, a, b):
        if isinstance(a, SBytes) or isinstance(b, SBytes):
            if isinstance(op, ast.Add) and isinstance(a, SBytes) and isinstance(b, SBytes):
                return SBytes(list(a) + list(b))
            raise Unsupported("bytes op")
        if not is_z(a) and not is_z(b):
            return self._concrete_binop(op, a, b)
        if z3.is_bool(a) if is_z(a) else False:
            a = z3.If(a, self.lit(1), self.lit(0))
        if z3.is_bool(b) if is_z(b) else False:
            b = z3.If(b, self.lit(1), self.lit(0))
        za, zb = self.tz(a), self.tz(b)
        bv = self.mode == "bv"
        if isinstance(op, ast.Add):
            if bv:
                self.guard(z3.BVAddNoOverflow(za, zb, False))
            return za + zb
        if isinstance(op, ast.Sub):
            if bv:
                self.guard(z3.UGE(za, zb))
            return za - zb
        if isinstance(op, ast.Mult):
            if bv:
                self.guard(z3.BVMulNoOverflow(za, zb, False))
            return za * zb
        if isinstance(op, (ast.FloorDiv, ast.Mod)):
            if is_z(b):
                raise Unsupported("division by a symbolic value")
            if b <= 0:
                raise Unsupported("division by non-positive constant")
            if isinstance(op, ast.FloorDiv):
                return z3.UDiv(za, zb) if bv else za / zb
            return z3.URem(za, zb) if bv else za % zb
        if not bv:
            raise Unsupported("bit operation in int mode")
        if isinstance(op, ast.BitAnd):
            return za & zb
        if isinstance(op, ast.BitOr):
            return za | zb
        if isinstance(op, ast.BitXor):
            return za ^ zb
        if isinstance(op, ast.RShift):
            return z3.LShR(za, zb)
        if isinstance(op, ast.LShift):
            if is_z(b):
                raise Unsupported("shift by symbolic amount")
            if b:
                self.guard(z3.Extract(self.W - 1, self.W - b, za) == z3.BitVecVal(0, b))
            return za << zb
        raise Unsupported("operator %s" % type(op).__name__)

    def _concrete_binop(self, op, a, b):
        import operator as o
        table = {ast.Add: o.add, ast.Sub: o.sub, ast.Mult: o.mul, ast.FloorDiv: o.floordiv, ast.Mod: o.mod,
                 ast.BitAnd: o.and_, ast.BitOr: o.or_, ast.BitXor: o.xor, ast.RShift: o.rshift, ast.LShift: o.lshift}
        if type(op) not in table:
            raise Unsupported("operator %s" % type(op).__name__)
        return table[type(op)](a, b)

    def compare(self, op, a, b):
        if not is_z(a) and not is_z(b):
            import operator as o
            table = {ast.Eq: o.eq, ast.NotEq: o.ne, ast.Lt: o.lt, ast.LtE: o.le, ast.Gt: o.gt, ast.GtE: o.ge}
            if type(op) in table:
                return table[type(op)](a, b)
            if isinstance(op, ast.In):
                return a in b
            if isinstance(op, ast.Is):
                return a is b
            if isinstance(op, ast.IsNot):
                return a is not b
            raise Unsupported("compare %s" % type(op).__name__)
        za, zb = self.tz(a), self.tz(b)
        if z3.is_bool(za) != z3.is_bool(zb):
            if z3.is_bool(za):
                za = z3.If(za, self.lit(1), self.lit(0))
            else:
                zb = z3.If(zb, self.lit(1), self.lit(0))
        bv = self.mode == "bv" and not z3.is_bool(za)
        if isinstance(op, ast.Eq):
            return za == zb
        if isinstance(op, ast.NotEq):
            return za != zb
        if isinstance(op, ast.Lt):
            return z3.ULT(za, zb) if bv else za < zb
        if isinstance(op, ast.LtE):
            return z3.ULE(za, zb) if bv else za <= zb
        if isinstance(op, ast.Gt):
            return z3.UGT(za, zb) if bv else za > zb
        if isinstance(op, ast.GtE):
            return z3.UGE(za, zb) if bv else za >= zb
        raise Unsupported("compare %s" % type(op).__name__)

    # ------------------------------------------------------------ expressions
    def ev(self, node, env):
        m = getattr(self, "ev_" + type(node).__name__, None)
        if m is None:
            raise Unsupported("expression %s" % type(node).__name__)
        return m(node, env)

    def ev_Constant(self, n, env):
        if isinstance(n.value, bytes):
            return SBytes(list(n.value))
        return n.value

    def ev_Name(self, n, env):
        if n.id in env:
            return env[n.id]
        if n.id in self.globs:
            return self.globs[n.id]
        import builtins
        if hasattr(builtins, n.id):
            return getattr(builtins, n.id)
        raise Unsupported("unknown name %s" % n.id)

    def ev_Attribute(self, n, env):
        base = self.ev(n.value, env)
        if is_z(base):
            raise Unsupported("attribute of symbolic value")
        return getattr(base, n.attr)

    def ev_BinOp(self, n, env):
        return self.binop(n.op, self.ev(n.left, env), self.ev(n.right, env))

    def ev_UnaryOp(self, n, env):
        v = self.ev(n.operand, env)
        if isinstance(n.op, ast.Not):
            t = self.truth(v)
            return z3.Not(t) if is_z(t) else (not t)
        if isinstance(n.op, ast.USub) and not is_z(v):
            return -v
        raise Unsupported("unary %s" % type(n.op).__name__)

    def ev_BoolOp(self, n, env):
        vals = [self.truth(self.ev(v, env)) for v in n.values]
        if all(not is_z(v) for v in vals):
            return all(vals) if isinstance(n.op, ast.And) else any(vals)
        zs = [self.tz(v) for v in vals]
        return z3.And(*zs) if isinstance(n.op, ast.And) else z3.Or(*zs)

    def ev_Compare(self, n, env):
        left = self.ev(n.left, env)
        res = []
        for op, c in zip(n.ops, n.comparators):
            right = self.ev(c, env)
            res.append(self.compare(op, left, right))
            left = right
        if all(not is_z(r) for r in res):
            return all(res)
        return z3.And(*[self.tz(r) for r in res])

    def ev_IfExp(self, n, env):
        c = self.truth(self.ev(n.test, env))
        if not is_z(c):
            return self.ev(n.body if c else n.orelse, env)
        a, b = self.ev(n.body, env), self.ev(n.orelse, env)
        return self.merge(c, a, b)

    def ev_List(self, n, env):
        return [self.ev(e, env) for e in n.elts]

    def ev_Tuple(self, n, env):
        return tuple(self.ev(e, env) for e in n.elts)

    def ev_Subscript(self, n, env):
        base = self.ev(n.value, env)
        if isinstance(n.slice, ast.Slice):
            lo = self.ev(n.slice.lower, env) if n.slice.lower else None
            hi = self.ev(n.slice.upper, env) if n.slice.upper else None
            if is_z(lo) or is_z(hi):
                raise Unsupported("symbolic slice bound")
            r = base[lo:hi]
            return SBytes(r) if isinstance(base, SBytes) else r
        idx = self.ev(n.slice, env)
        if not is_z(idx):
            return base[idx]
        # symbolic index into a concrete table -> If chain, with a bounds side condition
        if not isinstance(base, (list, tuple)):
            raise Unsupported("symbolic index into %s" % type(base).__name__)
        self.guard(z3.ULT(idx, self.lit(len(base))) if self.mode == "bv" else z3.And(idx >= 0, idx < len(base)))
        term = self.tz(base[-1])
        for i in range(len(base) - 2, -1, -1):
            term = z3.If(idx == self.lit(i), self.tz(base[i]), term)
        return term

    def ev_GeneratorExp(self, n, env):
        if len(n.generators) != 1 or n.generators[0].ifs:
            raise Unsupported("generator shape")
        g = n.generators[0]
        out = []
        for item in self.iterate(self.ev(g.iter, env)):
            e2 = dict(env)
            self.assign(g.target, item, e2)
            out.append(self.ev(n.elt, e2))
        return out

    ev_ListComp = ev_GeneratorExp

    def ev_Call(self, n, env):
        fn = self.ev(n.func, env)
        args = [self.ev(a, env) for a in n.args]
        if n.keywords:
            raise Unsupported("keyword arguments")
        name = getattr(fn, "__name__", "")
        if isinstance(n.func, ast.Name) and n.func.id in ("byte2int", "int2byte"):
            # compat helpers (identity on py3 bytes elements / one-byte pack): identified by their name in the source
            name = n.func.id
        if fn is len:
            return len(args[0])
        if fn is range:
            if any(is_z(a) for a in args):
                raise Unsupported("symbolic range")
            return list(range(*args))
        if fn is sum:
            acc = 0
            for x in args[0]:
                acc = self.binop(ast.Add(), acc, x)
            return acc
        if fn is min or fn is max:
            vals = list(args[0]) if len(args) == 1 else list(args)
            if not vals:
                raise Unsupported("min/max of nothing")
            acc = vals[0]
            for x in vals[1:]:
                if not is_z(acc) and not is_z(x):
                    acc = fn(acc, x)
                else:
                    keep = self.compare(ast.LtE() if fn is min else ast.GtE(), acc, x)
                    acc = self.merge(keep, acc, x) if is_z(keep) else (acc if keep else x)
            return acc
        if fn is int or name == "byte2int":
            if len(args) == 1:
                return args[0]
        if fn is bool:
            return self.truth(args[0])
        if name == "int2byte":
            v = args[0]
            if is_z(v):
                self.guard(z3.ULT(v, self.lit(256)) if self.mode == "bv" else z3.And(v >= 0, v < 256))
            return SBytes([v])
        if fn is isinstance:
            if is_z(args[0]):
                raise Unsupported("isinstance of symbolic")
            return isinstance(args[0], args[1])
        if fn is hasattr:
            return hasattr(args[0], args[1])
        if isinstance(n.func, ast.Attribute) and n.func.attr == "append" and isinstance(self.ev(n.func.value, env), list):
            self.ev(n.func.value, env).append(args[0])
            return None
        raise Unsupported("call to %s" % (name or fn))

    def iterate(self, v):
        if isinstance(v, (list, tuple, SBytes)):
            return list(v)
        if isinstance(v, (bytes, bytearray)):
            return list(v)
        raise Unsupported("iteration over %s" % type(v).__name__)

    # ------------------------------------------------------------ statements
    def merge(self, c, a, b):
        if a is b:
            return a
        if isinstance(a, SBytes) and isinstance(b, SBytes):
            if len(a) != len(b):
                raise Unsupported("merging byte strings of different length")
            return SBytes([self.merge(c, x, y) for x, y in zip(a, b)])
        if isinstance(a, list) and isinstance(b, list):
            if len(a) != len(b):
                raise Unsupported("merging lists of different length")
            return [self.merge(c, x, y) for x, y in zip(a, b)]
        if not is_z(a) and not is_z(b):
            if type(a) == type(b) and a == b:
                return a
            if not isinstance(a, (int, bool)) or not isinstance(b, (int, bool)):
                raise Unsupported("merging %r / %r" % (a, b))
        za, zb = self.tz(a), self.tz(b)
        if z3.is_bool(za) != z3.is_bool(zb):
            raise Unsupported("merging bool with int")
        return z3.If(c, za, zb)

    def assign(self, target, value, env):
        if isinstance(target, ast.Name):
            env[target.id] = value
        elif isinstance(target, (ast.Tuple, ast.List)):
            vals = list(value)
            if len(vals) != len(target.elts):
                raise Unsupported("unpack arity")
            for t, v in zip(target.elts, vals):
                self.assign(t, v, env)
        elif isinstance(target, ast.Attribute):
            obj = self.ev(target.value, env)
            setattr(obj, target.attr, value)
        else:
            raise Unsupported("assignment target %s" % type(target).__name__)

    def block(self, stmts, env):
        for i, s in enumerate(stmts):
            if isinstance(s, ast.If):
                c = self.truth(self.ev(s.test, env))
                if not is_z(c):
                    self.block(s.body if c else s.orelse, env)
                    continue
                dec = self.decided_value(c)
                if dec is not None:
                    # this run explores one side only (see run_function_paths); the condition is part of its path
                    self.block(s.body if dec else s.orelse, env)
                    continue
                has_ret = any(isinstance(x, (ast.Return, ast.Raise)) for b in (s.body, s.orelse) for x in ast.walk(ast.Module(body=b, type_ignores=[])))
                rest = stmts[i + 1:] if has_ret else []
                ea, eb = self.fork_env(env), self.fork_env(env)
                ra = rb = None
                self.path.append(c)
                try:
                    self.block(s.body + rest, ea)
                except _Return as r:
                    ra = r
                self.path.pop()
                self.path.append(z3.Not(c))
                try:
                    self.block(s.orelse + rest, eb)
                except _Return as r:
                    rb = r
                self.path.pop()
                try:
                    if has_ret:
                        if ra is None or rb is None:
                            raise Unsupported("branch falls off without return")
                        raise _Return(self.merge(c, ra.value, rb.value))
                    for k in set(ea) | set(eb):
                        if k in ea and k in eb:
                            env[k] = self.merge(c, ea[k], eb[k])
                        else:
                            env[k] = ea.get(k, eb.get(k))
                except Unsupported as e:
                    if "different length" in str(e) and not self.path:
                        raise ForkNeeded(c, str(e))
                    raise
                continue
            self.stmt(s, env)

    def decided_value(self, c):
        for d, val in getattr(self, "decided", ()):
            if z3.eq(z3.simplify(d), z3.simplify(c)):
                return val
        return None

    def fork_env(self, env):
        out = {}
        for k, v in env.items():
            if isinstance(v, SBytes):
                out[k] = SBytes(v)
            elif isinstance(v, list):
                out[k] = list(v)
            else:
                out[k] = v
        return out

    def stmt(self, s, env):
        if isinstance(s, ast.Assign):
            v = self.ev(s.value, env)
            for t in s.targets:
                self.assign(t, v, env)
        elif isinstance(s, ast.AugAssign):
            cur = self.ev(s.target, env)
            self.assign(s.target, self.binop(s.op, cur, self.ev(s.value, env)), env)
        elif isinstance(s, ast.For):
            if s.orelse:
                raise Unsupported("for-else")
            for item in self.iterate(self.ev(s.iter, env)):
                self.assign(s.target, item, env)
                self.block(s.body, env)
        elif isinstance(s, ast.Return):
            raise _Return(self.ev(s.value, env) if s.value else None)
        elif isinstance(s, ast.Expr):
            if isinstance(s.value, ast.Constant):
                return
            self.ev(s.value, env)
        elif isinstance(s, ast.Pass):
            return
        else:
            raise Unsupported("statement %s" % type(s).__name__)


def fn_ast(fn):
    src = textwrap.dedent(inspect.getsource(fn))
    tree = ast.parse(src)
    node = tree.body[0]
    assert isinstance(node, ast.FunctionDef)
    return node


def run_function(fn, args, mode="bv", width=32, extra_globals=None):
    """Symbolically evaluate fn(*args). Returns (result, interp)."""
    node = fn_ast(fn)
    g = dict(getattr(fn, "__globals__", {}))
    if extra_globals:
        g.update(extra_globals)
    it = Interp(mode, width, g)
    env = {}
    names = [a.arg for a in node.args.args]
    for nme, val in zip(names, args):
        env[nme] = val
    try:
        it.block(node.body, env)
        res = None
    except _Return as r:
        res = r.value
    return res, it


def run_function_paths(fn, args, mode="bv", width=32, extra_globals=None, max_paths=64):
    """like run_function, but an `if` whose sides cannot be merged splits the analysis: returns a list of
    (path condition terms, result, interp), one per explored side combination"""
    node = fn_ast(fn)
    g = dict(getattr(fn, "__globals__", {}))
    if extra_globals:
        g.update(extra_globals)
    names = [a.arg for a in node.args.args]
    work, out = [[]], []
    while work:
        decided = work.pop()
        if len(out) + len(work) > max_paths:
            raise Unsupported("more than %d unmergeable paths" % max_paths)
        it = Interp(mode, width, g)
        it.decided = decided
        env = {}
        for nme, val in zip(names, args):
            env[nme] = list(val) if isinstance(val, list) and not isinstance(val, SBytes) else (SBytes(val) if isinstance(val, SBytes) else val)
        try:
            try:
                it.block(node.body, env)
                res = None
            except _Return as r:
                res = r.value
        except ForkNeeded as f:
            work.append(decided + [(f.cond, True)])
            work.append(decided + [(f.cond, False)])
            continue
        out.append(([c if v else z3.Not(c) for c, v in decided], res, it))
    return out


def run_loop_body(fn, env, mode="bv", width=32, nth=0):
    """Lift the body of the nth `for` loop of fn as a state transformer over env (dict name->value)."""
    node = fn_ast(fn)
    loops = [n for n in ast.walk(node) if isinstance(n, ast.For)]
    loop = loops[nth]
    it = Interp(mode, width, dict(fn.__globals__))
    e = dict(env)
    it.block(loop.body, e)
    return e, it, loop


def statements_after_loop(fn, env, mode="bv", width=32):
    node = fn_ast(fn)
    idx = [i for i, s in enumerate(node.body) if isinstance(s, ast.For)][0]
    it = Interp(mode, width, dict(fn.__globals__))
    e = dict(env)
    try:
        it.block(node.body[idx + 1:], e)
        return None, it, e
    except _Return as r:
        return r.value, it, e


class Prover(object):
    """Collects UNSAT queries; counts them and the solver time."""

    def __init__(self, timeout_ms=60000):
        self.queries = 0
        self.secs = 0.0
        self.timeout_ms = timeout_ms
        self.log = []

    def valid(self, claim, assumptions=(), what=""):
        """Return (status, model) for: assumptions => claim. status in proved/refuted/unknown."""
        import time
        s = z3.Solver()
        s.set("timeout", self.timeout_ms)
        for a in assumptions:
            s.add(a)
        s.add(z3.Not(claim))
        t = time.perf_counter()
        r = s.check()
        dt = time.perf_counter() - t
        self.queries += 1
        self.secs += dt
        st = {"unsat": "proved", "sat": "refuted"}.get(str(r), "unknown")
        self.log.append({"what": what, "result": st, "secs": round(dt, 3)})
        return st, (s.model() if st == "refuted" else None)
