#!/bin/bash
# run the thorough tier of every (or the given) property sequentially at low priority; summary lines to stdout
cd "$(dirname "$0")/.."
IDS=${@:-$(python3 -c "import json; print(' '.join(c['property_id'] for c in json.load(open('MANIFEST.json'))['checks']))")}
for id in $IDS; do
  start=$(date +%s)
  out=$(nice -n 10 ./check $id thorough 2>thorough_$id.err); rc=$?
  echo "rc=$rc $(( $(date +%s) - start ))s $(echo "$out" | tail -1)"
  echo "$out" | grep -E "^(VIOLATION|HARNESS-ERROR|KNOWN-FINDING|NOTE)" | cut -c1-200 | head -12
  grep -E "UNKNOWN|VACUOUS|MISMATCH|ERROR" thorough_$id.err | cut -c1-160 | head -30
done
