"""C15 -- concurrent callers of one synchronous client are serialised.

This family of technique has no engine for thread schedules (CrossHair, like Kani, does not model concurrency). The
schedule quantifier is discharged by a REDUCTION whose premise the solver checks on the real code:

  if every access to the shared transaction state (transport send/receive/connect/close, the framer's buffer,
  the transaction-id counter, the reply slots) is made while one and the same lock is held by the accessing thread,
  and the lock is released on every exit of the call, then every execution of several threads is equivalent to a
  serial execution of whole transactions (standard lock-discipline argument; Python's RLock is trusted).
  Serial correctness from an arbitrary inter-transaction state is C08/C13/C14's subject.

lock.<framing>.r<retries>...: the C13 fault harness (symbolic per-attempt transport behaviour, symbolic contents,
exceptions thrown by the transport) with monitors on every such access. Asserted: at every monitored event exactly
one lock reachable from the client is owned, it is the same lock at all events of both transactions, and no lock
is owned after execute() has returned or raised. The lock is found by identity among all threading locks reachable
from the client and its transaction manager, not by attribute name.
"""
import threading

from engine.hlib import assume, same, explain, known
from engine.obl import Obl
from spec import adu
from harness.clientlib import make_client
from harness.c13 import BEHAVIOURS, _frames, _not_valid

LEVEL = "other"
EXPLANATION = ("Lock-discipline premise checked by bounded symbolic model checking of the real transaction code under symbolic transport "
               "faults; the step from the premise to 'all interleavings are serialisable' is a stated reduction, not explored schedules. "
               "A race in code that does not pass through the monitored accesses would not be seen.")
ASSUMPTIONS = ["reduction: lock discipline on all shared-state accesses + release on every exit => serialisability (paper argument; CPython RLock trusted)",
               "monitored accesses: connect/send/recv/close of the transport, framer addToFrame/resetFrame/advanceFrame/processIncomingPacket, getNextTID, addTransaction, getTransaction",
               "inputs as C13: per-attempt symbolic transport behaviour incl. OSError, retries 0..1"]

_LOCK_TYPES = (type(threading.RLock()), type(threading.Lock()))


def find_locks(*objs):
    found = []
    for o in objs:
        for name, val in list(vars(o).items()):
            if isinstance(val, _LOCK_TYPES) and all(val is not f for f in found):
                found.append(val)
    return found


def owned(lock):
    if hasattr(lock, "_is_owned"):
        return lock._is_owned()
    return lock.locked()


def make_lock(framing, retries, roe, roi):
    ncalls = 1 + retries

    def lock(ch: bytes, u: bytes, v: bytes, g: bytes) -> bool:
        import socket
        import pymodbus.factory as F
        assume(len(ch) == 2 * ncalls and len(u) == 2 and len(v) == 4 and len(g) == 6)
        unit, other = u[0], u[1]
        assume(1 <= unit <= 247)
        assume(1 <= other <= 247)
        assume(other != unit)
        for i in range(2 * ncalls):
            # full reply, nothing, half a reply, garbage, OSError (the remaining C13 behaviours take the same code paths)
            assume((ch[i] == 0) | (ch[i] == 2) | (ch[i] == 3) | (ch[i] == 4) | (ch[i] == 7))
        if framing == "rtu":
            assume(g[1] == 3)
            assume(g[2] <= 4)
            _not_valid(framing, g)
        cl = make_client(framing, rx=b"", retries=retries, retry_on_empty=roe, retry_on_invalid=roi)
        locks = find_locks(cl, cl.transaction, cl.framer)
        if not locks:
            explain("no lock reachable from the client")
            return False
        events = []          # (event name, tuple of owned flags per lock)

        def note(name):
            events.append((name, tuple(bool(owned(l)) for l in locks)))

        def wrap(obj, name):
            orig = getattr(obj, name)

            def w(*a, **k):
                note(name)
                return orig(*a, **k)
            setattr(obj, name, w)
        for name in ("addToFrame", "resetFrame", "advanceFrame", "processIncomingPacket"):
            wrap(cl.framer, name)
        for name in ("getNextTID", "addTransaction", "getTransaction"):
            wrap(cl.transaction, name)
        for name in ("connect", "close"):
            wrap(cl, name)
        state = {"pending": b"", "n": 0, "fresh": False, "tid": 1}

        def recv_hook(client, size):
            note("recv")
            if state["fresh"]:
                state["fresh"] = False
                k = ch[state["n"]] if state["n"] < 2 * ncalls else 2
                state["n"] += 1
                fr = _frames(framing, unit, other, state["tid"], v)
                if k == 7:
                    raise socket.error("scripted OSError")
                name = BEHAVIOURS[k]
                if name in fr:
                    state["pending"] = fr[name]
                elif name == "nothing":
                    state["pending"] = b""
                elif name == "half":
                    state["pending"] = fr["full"][:len(fr["full"]) // 2]
                else:
                    state["pending"] = g
            buf = state["pending"]
            out, state["pending"] = (buf, b"") if size is None else (buf[:size], buf[size:])
            return out

        def send_hook(client, request):
            note("send")
            state["fresh"] = True
            state["pending"] = b""
            return len(request)
        for i in range(1, 60):
            cl.faults[("recv", i)] = recv_hook
            cl.faults[("send", i)] = send_hook
        for txn in range(2):
            req = F.ReadHoldingRegistersRequest(txn, 1)
            req.unit_id = unit
            state["tid"] = (cl.transaction.tid + 1) % 65536
            try:
                cl.transaction.execute(req)
            except Exception:
                pass                      # (whether a call may raise is C13's subject; the lock must be released anyway)
            for l in locks:
                if owned(l):
                    explain("a lock is still held after transaction %d ended", txn)
                    return False
        if not events:
            return False
        the = None
        for name, flags in events:
            if sum(1 for f in flags if f) != 1:
                explain("event %s: owned locks %r", name, flags)
                return False
            idx = flags.index(True)
            if the is None:
                the = idx
            elif idx != the:
                explain("event %s guarded by a different lock", name)
                return False
        return True
    return lock


def obligations(tier):
    from harness import kernels
    T = 300 if tier == "quick" else 1500
    out = [kernels.K1(tier), kernels.K2(tier)]
    contracts = {"tcp": (), "rtu": ("crc",), "binary": ("crc",), "ascii": ("lrc",)}
    lem = {"tcp": (), "rtu": ("K1",), "binary": ("K1",), "ascii": ("K2",)}
    configs = [("tcp", 0, False, False), ("rtu", 0, False, False)]
    if tier != "quick":
        configs += [("tcp", 1, True, True), ("rtu", 1, True, True), ("ascii", 0, False, False), ("tcp", 1, False, True), ("tcp", 2, True, True)]
    for framing, retries, roe, roi in configs:
        out.append(Obl("lock.%s.r%d.e%d.i%d" % (framing, retries, roe, roi), make_lock(framing, retries, roe, roi), timeout=T,
                       contracts=contracts[framing], lemmas=lem[framing],
                       bounds="%s client, two consecutive transactions, retries=%d: per attempt a symbolic choice among %s (incl. OSError), symbolic contents; lock ownership recorded at every monitored access" % (framing, retries, BEHAVIOURS)))
    return out
