"""Scripted synchronous client: a BaseModbusClient subclass whose transport is a script.

Everything between the script (the environment) and the caller is the repository's code:
BaseModbusClient.execute/send/recv, ModbusTransactionManager.execute/_transact/_recv, the framer,
the ClientDecoder. The transport hands out bytes from `rx` exactly as asked (`recv(n)` returns at most n
bytes, `recv(None)` returns whatever is buffered), records what was sent and every event.
"""


def make_client(framing, rx=b"", retries=0, retry_on_empty=False, retry_on_invalid=False, faults=None, name="Null Transport"):
    from pymodbus.client.sync import BaseModbusClient
    from pymodbus.factory import ClientDecoder
    from pymodbus.utilities import ModbusTransactionState
    from spec.adu import framer_class

    class ScriptClient(BaseModbusClient):
        def __init__(self):
            self.sent = []
            self.events = []
            self.rx = rx
            self.faults = dict(faults or {})       # event index -> exception to raise / special behaviour
            self.connected = 0
            self.closed = 0
            self.state = ModbusTransactionState.IDLE
            self.timeout = 3
            self.silent_interval = 0
            self.last_frame_end = 0
            self.recv_sizes = []
            BaseModbusClient.__init__(self, framer_class(framing)(ClientDecoder(), self),
                                      retries=retries, retry_on_empty=retry_on_empty, retry_on_invalid=retry_on_invalid)
            # pymodbus turns retries=0 into 1 ("or 1"); harnesses set the attribute they mean explicitly
            self.transaction.retries = retries
            from engine.hlib import eqdict
            self.transaction.transactions = eqdict()   # see hlib.eqdict: hash-free map under the solver

        def connect(self):
            self.connected += 1
            self.events.append(("connect",))
            return True

        def close(self):
            self.closed += 1
            self.events.append(("close",))
            self.rx = b""              # whatever was still in flight on a closed connection is gone

        def _send(self, request):
            self.events.append(("send", request))
            self.sent.append(request)
            hook = self.faults.get(("send", len(self.sent)))
            if hook is not None:
                return hook(self, request)
            return len(request)

        def _recv(self, size):
            self.recv_sizes.append(size)
            self.events.append(("recv", size))
            hook = self.faults.get(("recv", len(self.recv_sizes)))
            if hook is not None:
                return hook(self, size)
            if size is None:
                out, self.rx = self.rx, b""
            else:
                out, self.rx = self.rx[:size], self.rx[size:]
            return out

        def __str__(self):
            return name

    return ScriptClient()
