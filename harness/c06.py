"""C06 -- framing is independent of how the byte stream is chunked.

chunk.<framing>.<dir>.<classes>.cuts<k>: a stream of 1-2 valid frames (reference ADUs, all field values, unit ids and
transaction ids symbolic) is fed to a fresh framer under EVERY schedule with exactly k cuts (cut positions concrete and
enumerated inside the harness, repeated positions = empty reads). Asserted for every schedule: the callbacks are exactly
the stream's messages, in order, and no exception escapes processIncomingPacket.
"""
import itertools

from engine.hlib import lohi, assume, same, explain, known
from engine.obl import Obl
from spec import pdu, adu
from harness.c01 import fields_equal, _decoder, needs_bits

LEVEL = "model_checking"
EXPLANATION = ("Bounded symbolic model checking of the receive path (processIncomingPacket, isFrameReady, checkFrame, advanceFrame, "
               "resetFrame, populateHeader) of the TCP, RTU, ASCII and binary framers over symbolic frame contents, for every way of "
               "cutting the stream with up to k cuts.")
ASSUMPTIONS = ["streams of 1..2 valid frames; frames <= 13 bytes (ASCII <= 27 characters); cuts: quick 0..2, thorough 0..3 plus the all-single-bytes schedule",
               "checksums appear as contracts (K1/K2); only valid frames are fed (noise is C11/C07's subject)",
               "binary framing: frames containing delimiter bytes are C03's known finding and are assumed away"]


def schedules(L, k):
    """all ways to cut a stream of L bytes with exactly k cuts (positions 0..L, repetition allowed = empty reads)"""
    return list(itertools.combinations_with_replacement(range(0, L + 1), k))


def _piece(stream, lo, hi):
    # built element by element: a slice view of a concatenation keeps symbolic bounds inside the engine, which its
    # sequence code cannot add to a buffer that was itself cut at a symbolic (byte-count dependent) position
    return bytes([stream[i] for i in range(lo, hi)])


def split(stream, cuts):
    out, prev = [], 0
    L = len(stream)
    for c in cuts:
        out.append(_piece(stream, prev, c))
        prev = c
    out.append(_piece(stream, prev, L))
    return out


def rtu_bcpos(S):
    """index of the byte-count field inside an RTU frame of this class (None: fixed-size frame) -- protocol facts"""
    if S.dir == "rsp" and S.name in ("ReadCoilsResponse", "ReadDiscreteInputsResponse", "ReadHoldingRegistersResponse",
                                     "ReadInputRegistersResponse", "ReadWriteMultipleRegistersResponse"):
        return 2
    if S.name in ("WriteMultipleCoilsRequest", "WriteMultipleRegistersRequest"):
        return 6
    if S.name == "ReadWriteMultipleRegistersRequest":
        return 10
    if S.name == "ReadFifoQueueResponse":
        return 3            # (16-bit byte count at positions 2..3)
    if S.name in ("ReadFileRecordRequest", "WriteFileRecordRequest", "ReadFileRecordResponse", "WriteFileRecordResponse",
                  "GetCommEventLogResponse", "ReportSlaveIdResponse", "ReadDeviceInformationResponse"):
        return 2
    return None


def holds_on_tree(framing, flens, bcpos, cuts, single_bytes=False):
    """Which read schedules the listed findings KF-tcp-split-frames / KF-rtu-split-or-multiple-frames /
    KF-binary-split-or-multiple-frames do NOT cover, i.e. for which the property is asserted. flens = frame lengths on
    the wire, cuts = cut positions. A deliberately conservative description (a schedule it leaves out is treated as part
    of the finding, never the other way round); fixed here, not computed from the code under test.
      TCP:    every cut lies on a frame boundary (whole frames per read, empty reads allowed)
      RTU:    one frame: cuts only at 0, 1 or the end. Two frames A B: one cut at or after the end of A; two or more cuts:
              all at or after the end of A (or the first at 0/1), none leaving 2..byte-count-position bytes of a
              variable-length B in the buffer
      binary: one frame: cuts only at 0, 1 or the end. Two frames: a cut exactly between them, plus at most an empty
              read / a read of the leading byte"""
    if framing == "ascii":
        return True
    if single_bytes:
        return False
    L = sum(flens)
    if framing == "tcp":
        bounds = [0]
        for fl in flens:
            bounds.append(bounds[-1] + fl)
        return all(c in bounds for c in cuts)
    if len(flens) == 1:
        return all(c in (0, 1, L) for c in cuts)
    a = flens[0]
    if framing == "rtu":
        if len(cuts) == 0:
            return False
        if len(cuts) == 1:
            return cuts[0] >= a
        rest = list(cuts)
        if rest[0] <= 1:
            rest = rest[1:]
        if not all(c >= a for c in rest):
            return False
        bc = bcpos[1]
        if bc is None:
            return True
        return all((c - a) <= 1 or (c - a) > bc for c in rest)
    if framing == "binary":
        if len(cuts) == 1:
            return cuts[0] == a
        if len(cuts) == 2:
            return tuple(cuts) in ((0, a), (1, a), (a, a), (a, a + 1), (a, L))
        return False
    return False


def make_chunk(framing, specs, shapes, ncuts, single_bytes=False, part="all"):
    """part: 'asserted' = only the schedules the listed findings do not cover (must hold), 'listed' = only the schedules
    inside a listed finding (a whole-obligation finding), 'all' = every schedule"""
    lens = [S.blen(sh) for S, sh in zip(specs, shapes)]
    n = len(specs)

    def run(hdrs, bodies):
        F = adu.framer_class(framing)
        frames, exp = [], []
        for i in range(n):
            S, sh, hdr, b = specs[i], shapes[i], hdrs[i], bodies[i]
            assume(len(hdr) == 5)
            assume(len(b) == lens[i])
            for c in S.wf(b, sh):
                assume(c)
            pdu_bytes = bytes([S.fc]) + b
            if framing == "binary":
                from harness.c14 import crc16
                c16 = crc16(bytes([hdr[4]]) + pdu_bytes)
                hit = (hdr[4] == 0x7B) | (hdr[4] == 0x7D) | (lohi(c16)[0] == 0x7B) | (lohi(c16)[0] == 0x7D) | (lohi(c16)[1] == 0x7B) | (lohi(c16)[1] == 0x7D)
                for j in range(len(pdu_bytes)):
                    hit = hit | (pdu_bytes[j] == 0x7B) | (pdu_bytes[j] == 0x7D)
                assume(not hit)
            frames.append(adu.ref_adu(framing, pdu_bytes, hdr[4], hdr[0:2], hdr[2:4]))
            exp.append((S, sh, b, hdr))
        # all frames carry the same unit id so that one receiver accepts them all
        for i in range(1, n):
            assume(hdrs[i][4] == hdrs[0][4])
        stream = b"".join(frames)
        L = len(stream)
        scheds = [tuple(range(1, L))] if single_bytes else schedules(L, ncuts)
        if part != "all":
            flens = [ln + {"tcp": 8, "rtu": 4, "binary": 6, "ascii": 0}[framing] for ln in lens]     # (concrete: wire lengths)
            bcs = [rtu_bcpos(S) for S in specs]
            keep = [c for c in scheds if holds_on_tree(framing, flens, bcs, c, single_bytes) == (part == "asserted")]
            scheds = keep
            if not scheds:
                assume(False)
        for cuts in scheds:
            rx = F(_decoder(specs[0].dir))
            got = []
            for chunk in split(stream, cuts):
                try:
                    rx.processIncomingPacket(chunk, got.append, hdrs[0][4])
                except Exception as e:     # noqa -- "no exception escapes the receive call"
                    explain("schedule %r: %s escaped processIncomingPacket: %s", cuts, type(e).__name__, e)
                    return False
            if len(got) != n:
                explain("schedule %r: %d messages delivered, %d frames sent", cuts, len(got), n)
                return False
            for r, (S, sh, b, hdr) in zip(got, exp):
                if type(r).__name__ != S.name:
                    explain("schedule %r: delivered %s, expected %s", cuts, type(r).__name__, S.name)
                    return False
                direct = _decoder(S.dir).decode(bytes([S.fc]) + b)
                if not fields_equal(S.get(r, sh), S.get(direct, sh)):
                    explain("schedule %r: fields differ", cuts)
                    return False
                if r.unit_id != hdr[4]:
                    explain("schedule %r: unit id", cuts)
                    return False
                if framing == "tcp" and r.transaction_id != hdr[0] * 256 + hdr[1]:
                    explain("schedule %r: transaction id", cuts)
                    return False
        return True

    if n == 1:
        def chunk(h0: bytes, b0: bytes) -> bool:
            return run([h0], [b0])
    else:
        def chunk(h0: bytes, b0: bytes, h1: bytes, b1: bytes) -> bool:
            return run([h0, h1], [b0, b1])
    return chunk


def make_big_ascii(nregs):
    """a maximum-size ASCII frame (read-registers response with nregs registers): unit, the first two and the last two
    registers symbolic, the rest a fixed pattern; one cut at every position of a spread that includes the last 10"""
    def big(u: int, e: bytes) -> bool:
        from pymodbus.factory import ClientDecoder
        assume(len(e) == 8)
        assume(1 <= u <= 247)
        mid = bytes((i * 7 + 3) % 256 for i in range(2 * nregs - 8))
        body = bytes([2 * nregs]) + e[0:4] + mid + e[4:8]
        frame = adu.ref_adu("ascii", bytes([3]) + body, u)
        small = adu.ref_adu("ascii", bytes([3, 2, e[0], e[1]]), u)
        stream = frame + small
        L = len(frame)
        cuts = sorted(set([1, 2, 9, L // 3, L // 2, L - 40] + list(range(L - 10, L + 1)) + [L + 3]))
        F = adu.framer_class("ascii")
        for c in cuts:
            rx = F(ClientDecoder())
            got = []
            for chunk in (stream[:c], stream[c:]):
                try:
                    rx.processIncomingPacket(chunk, got.append, u)
                except Exception as ex:
                    explain("cut %d: %s escaped: %s", c, type(ex).__name__, ex)
                    return False
            if len(got) != 2:
                explain("cut at %d of a %d-character frame: %d messages delivered instead of 2", c, L, len(got))
                return False
            r = got[0]
            if type(r).__name__ != "ReadHoldingRegistersResponse" or len(r.registers) != nregs:
                return False
            if r.registers[0] != e[0] * 256 + e[1] or r.registers[nregs - 1] != e[6] * 256 + e[7]:
                return False
            if got[1].registers != [e[0] * 256 + e[1]]:
                return False
        return True
    return big


CONTRACTS = {"tcp": (), "rtu": ("crc",), "binary": ("crc",), "ascii": ("lrc",)}
LEMMAS = {"tcp": (), "rtu": ("K1",), "binary": ("K1",), "ascii": ("K2",)}


def whole(framing, nframes, ncuts):
    """the listed known finding of a framing (for obligations wholly inside it)"""
    if framing == "tcp" and ncuts > 0:
        return "KF-tcp-split-frames"
    if framing == "rtu" and (ncuts > 0 or nframes > 1):
        return "KF-rtu-split-or-multiple-frames"
    if framing == "binary" and (ncuts > 0 or nframes > 1):
        return "KF-binary-split-or-multiple-frames"
    return None


def obligations(tier):
    from harness import kernels
    T = 240 if tier == "quick" else 1800
    by = {S.name: S for S in pdu.all_specs()}
    out = [kernels.K1(tier), kernels.K2(tier)]
    combos = {
        # (the last pair ends in a request without data: the shortest frame there is, 8 bytes on TCP)
        "req": [("WriteSingleRegisterRequest",), ("ReadCoilsRequest", "WriteSingleRegisterRequest"),
                ("WriteSingleRegisterRequest", "ReadExceptionStatusRequest")],
        # (the FIFO response has the odd header: a 16-bit byte count)
        "rsp": [("ReadHoldingRegistersResponse",), ("WriteSingleCoilResponse", "ReadHoldingRegistersResponse"),
                ("WriteSingleCoilResponse", "ReadFifoQueueResponse")],
    }
    if tier != "quick":
        combos["req"] += [("WriteMultipleRegistersRequest",), ("MaskWriteRegisterRequest", "ReadExceptionStatusRequest")]
        combos["rsp"] += [("ReadCoilsResponse",), ("ReadExceptionStatusResponse", "WriteMultipleRegistersResponse")]
    maxcuts = 2 if tier == "quick" else 3
    for framing in ("tcp", "rtu", "ascii", "binary"):
        for d in ("req", "rsp"):
            for names in combos[d]:
                specs = [by[nm] for nm in names]
                shapes = [S.shapes("quick")[0] for S in specs]
                contracts = CONTRACTS[framing] + (("bits",) if any(needs_bits(S) for S in specs) else ())
                over = {"tcp": 8, "rtu": 4, "binary": 6}
                for k in range(0, maxcuts + 1):
                    if tier == "quick" and framing == "ascii" and k == 2 and len(names) == 2:
                        continue      # two ASCII frames x every pair of cuts: thorough tier
                    if tier == "quick" and names[-1] == "ReadExceptionStatusRequest" and k == 2:
                        continue
                    if names[-1] == "ReadFifoQueueResponse" and framing != "rtu":
                        continue      # (added for the RTU sizing of that response)
                    base = "chunk.%s.%s.%s.cuts%d" % (framing, d, "+".join(n.replace("Request", "Rq").replace("Response", "Rs") for n in names), k)
                    bounds = "%s framing, stream of %d frame(s) %s with all field values/unit/tid symbolic; every schedule with exactly %d cut(s) (empty reads included)" % (
                        framing, len(names), list(names), k)
                    if framing == "ascii":
                        out.append(Obl(base, make_chunk(framing, specs, shapes, k), timeout=T, contracts=contracts,
                                       lemmas=LEMMAS[framing], bounds=bounds))
                        continue
                    # TCP / RTU / binary: the schedules are split into those the listed findings cover and the rest
                    flens = [S.blen(sh) + over[framing] for S, sh in zip(specs, shapes)]
                    bcs = [rtu_bcpos(S) for S in specs]
                    sch = schedules(sum(flens), k)
                    n_ok = sum(1 for c in sch if holds_on_tree(framing, flens, bcs, c))
                    if n_ok:
                        out.append(Obl(base, make_chunk(framing, specs, shapes, k, part="asserted"), timeout=T, contracts=contracts,
                                       lemmas=LEMMAS[framing],
                                       bounds=bounds + " -- the %d of %d schedules that the listed finding %s does not cover (holds_on_tree)" % (n_ok, len(sch), whole(framing, 2, 1))))
                    if n_ok < len(sch):
                        out.append(Obl(base + ".listed", make_chunk(framing, specs, shapes, k, part="listed"), timeout=T, contracts=contracts,
                                       lemmas=LEMMAS[framing], whole_finding=whole(framing, 2, 1),
                                       bounds=bounds + " -- the %d of %d schedules inside the listed finding" % (len(sch) - n_ok, len(sch))))
                if tier != "quick":
                    name = "chunk.%s.%s.%s.single-bytes" % (framing, d, "+".join(names))
                    out.append(Obl(name, make_chunk(framing, specs, shapes, 0, single_bytes=True), timeout=T, contracts=contracts,
                                   lemmas=LEMMAS[framing], whole_finding=whole(framing, len(names), 99),
                                   bounds="%s framing, %d frame(s), delivered one byte per read" % (framing, len(names))))
    for n in ([125] if tier == "quick" else [124, 125, 123]):
        out.append(Obl("chunk.ascii.rsp.max-size[%d].cuts1" % n, make_big_ascii(n), timeout=T * 2, contracts=("lrc",), lemmas=("K2",),
                       bounds="ASCII framing, a %d-register read response (%d characters) followed by a short frame; unit, first and last registers symbolic, other registers a fixed pattern; one cut at each of ~20 positions incl. the last 10 of the big frame" % (n, 2 * (2 * n + 3) + 5)))
    return out
