"""Obligation descriptor shared by harness modules, the runner and the workers."""


class Obl(object):
    """One proof obligation.

    kind == "ch":  `fn` is a harness function analysed by CrossHair (Engine A).
    kind == "smt": `run()` builds a z3 query from /repo's current source (Engine B, pysym) and returns
                   {"status": CONFIRMED|REFUTED|UNKNOWN, "queries": n, "solver_secs": s, "detail": str,
                    "cex": {...} or None}; `replay(cex)` re-runs the counterexample on the real function
                   and returns a dict {"fails": bool, "observed": str}.
    """

    def __init__(self, name, fn=None, bounds="", timeout=60, findings=(), contracts=(), lemmas=(),
                 kind="ch", run=None, replay=None, per_path_timeout=None, outside="", functions=(),
                 expect=None, twin=True, whole_finding=None):
        self.name = name
        self.fn = fn
        self.bounds = bounds
        self.outside = outside
        self.timeout = timeout
        self.findings = tuple(findings)
        self.contracts = tuple(contracts)
        self.lemmas = tuple(lemmas)
        self.kind = kind
        self.run = run
        self.replay = replay
        self.per_path_timeout = per_path_timeout
        self.functions = tuple(functions)
        self.twin = twin
        # id of a listed known finding whose region is this entire obligation (e.g. one class x direction)
        self.whole_finding = whole_finding
