"""C03 -- each transport framing builds the spec ADU and round-trips messages.

Per framer x decoder direction x message class x concrete shape; unit id, transaction id, protocol id and
every field value symbolic (bytes first):
  adu.<framing>.<Class>   buildPacket(m) == reference ADU of spec/adu.py
  rt.<framing>.<Class>    a fresh framer fed that packet whole delivers exactly one message, equal to the
                          original, with unit id (and tid/pid on TCP) preserved
CRC/LRC appear as contracts inside these harnesses; lemmas K1/K2 tie the real functions to the standards.
"""
from engine.hlib import lohi, assume, same, explain, known, crc16, in_witness
from engine.obl import Obl
from spec import pdu, adu
from harness.c01 import fields_equal, _decoder, needs_bits

LEVEL = "model_checking"
EXPLANATION = ("Bounded symbolic model checking of buildPacket and the receive path (processIncomingPacket, checkFrame, "
               "getFrame, populateResult, advanceFrame, RTU frame-length oracle) of all five framers for every message class; "
               "checksum kernels proved separately by AST->z3 translation (K1 CRC-16 step/induction, K2 LRC).")
ASSUMPTIONS = ["computeCRC is replaced by an uninterpreted step function folded over the data (sound for CONFIRMED; lemma K1 proves the real step is CRC-16/Modbus)",
               "computeLRC is replaced by its closed form (lemma K2)",
               "binary framing: main obligations assume no '{' / '}' byte in unit, PDU or CRC; the remaining region is the listed known finding KF-binary-delimiters"]


def _parts(S, shape, hdr, b):
    for c in S.wf(b, shape) + S.wf_enc(b, shape):
        assume(c)
    f = S.fields(b, shape)
    m = S.build(f, shape)
    m.transaction_id = hdr[0] * 256 + hdr[1]
    m.protocol_id = hdr[2] * 256 + hdr[3]
    m.unit_id = hdr[4]
    return m


def _binary_carve(hdr, pdu_bytes):
    """Known finding KF-binary-delimiters: some byte of unit / PDU / CRC equals '{' or '}'."""
    body = bytes([hdr[4]]) + pdu_bytes
    c = crc16(body)
    in_data = (hdr[4] == 0x7B) | (hdr[4] == 0x7D)
    for i in range(len(pdu_bytes)):
        in_data = in_data | (pdu_bytes[i] == 0x7B) | (pdu_bytes[i] == 0x7D)
    in_crc = (lohi(c)[0] == 0x7B) | (lohi(c)[0] == 0x7D) | (lohi(c)[1] == 0x7B) | (lohi(c)[1] == 0x7D)
    if in_witness("KF-binary-delimiters"):
        # the witness must not depend on the (uninterpreted) checksum value: delimiter in unit or payload
        assume(in_data)
        return
    known("KF-binary-delimiters", in_data | in_crc)


def make_adu(framing, S, shape):
    L = S.blen(shape)

    def adu_h(hdr: bytes, b: bytes) -> bool:
        assume(len(hdr) == 5)
        assume(len(b) == L)
        m = _parts(S, shape, hdr, b)
        # the PDU inside the ADU is the library's own (its conformance is C01's subject, not the framing's)
        own_pdu = bytes([m.function_code]) + m.encode()
        if framing == "binary":
            _binary_carve(hdr, own_pdu)
        fr = adu.framer_class(framing)(_decoder(S.dir))
        pkt = fr.buildPacket(m)
        exp = adu.ref_adu(framing, own_pdu, hdr[4], hdr[0:2], hdr[2:4])
        return same(pkt, exp, "ADU")
    return adu_h


def make_rt(framing, S, shape):
    L = S.blen(shape)

    def rt(hdr: bytes, b: bytes) -> bool:
        assume(len(hdr) == 5)
        assume(len(b) == L)
        m = _parts(S, shape, hdr, b)
        own_pdu = bytes([m.function_code]) + m.encode()
        if framing == "binary":
            _binary_carve(hdr, own_pdu)
        # "equal to the original" is decided relative to decoding the bare PDU (codec inverse-ness is C02's subject)
        direct = _decoder(S.dir).decode(own_pdu)
        if direct is None:
            assume(False)
        F = adu.framer_class(framing)
        pkt = F(_decoder(S.dir)).buildPacket(m)
        got = []
        rx = F(_decoder(S.dir))
        rx.processIncomingPacket(pkt, got.append, hdr[4])
        if len(got) != 1:
            explain("receiver delivered %d messages for one frame", len(got))
            return False
        r = got[0]
        if type(r).__name__ != S.name:
            explain("delivered class %s", type(r).__name__)
            return False
        if not fields_equal(S.get(r, shape), S.get(direct, shape)):
            return False
        if adu.carries_unit(framing) and not same(r.unit_id, hdr[4], "unit id"):
            return False
        if framing == "tcp":
            if not same(r.transaction_id, hdr[0] * 256 + hdr[1], "transaction id"):
                return False
            if not same(r.protocol_id, hdr[2] * 256 + hdr[3], "protocol id"):
                return False
        return len(rx._buffer) == 0
    return rt


CONTRACTS = {"tcp": (), "tls": (), "rtu": ("crc",), "binary": ("crc",), "ascii": ("lrc",)}
LEMMAS = {"tcp": (), "tls": (), "rtu": ("K1",), "binary": ("K1",), "ascii": ("K2",)}

def whole(op, framing, S, shape):
    """class x framing x shape combinations wholly inside a listed known finding"""
    if op == "rt" and framing == "rtu" and S.fc == 8 and S.dir == "rsp" and shape != 1:
        return "KF-rtu-diag-response-length"
    return None


def obligations(tier):
    from harness import kernels
    T = 120 if tier == "quick" else 600
    out = [kernels.K1(tier), kernels.K2(tier), kernels.K3(tier)]
    for framing in adu.FRAMERS:
        for S in pdu.all_specs():
            shapes = S.shapes(tier)
            if tier == "quick":
                # one shape per class: the largest quick shape
                shapes = shapes[-1:]
                if framing == "rtu" and S.name in ("ReadHoldingRegistersResponse", "WriteMultipleRegistersRequest"):
                    # ... and, on RTU, the maximum-size frame (255 / 256 bytes on the wire): size limits live there
                    shapes = shapes + [S.shapes("thorough")[-1]]
            for shape in shapes:
                key = "%s.%s" % (framing, S.key(shape))
                contracts = CONTRACTS[framing] + (("bits",) if needs_bits(S) else ())
                lem = LEMMAS[framing] + (("K3",) if needs_bits(S) else ())
                bounds = "%s framing, %s PDU shape %s: unit 0..255, tid/pid 0..65535, all %d body bytes symbolic" % (
                    framing, S.dir, shape, S.blen(shape))
                fnd = ("KF-binary-delimiters",) if framing == "binary" else ()
                T2 = T * 3 if (S.name.endswith("FileRecordResponse") and S.blen(shape) > 8) else T
                out.append(Obl("adu." + key, make_adu(framing, S, shape), bounds=bounds, timeout=T2, contracts=contracts,
                               lemmas=lem, findings=(), whole_finding=whole("adu", framing, S, shape)))
                if S.name == "ReadFifoQueueResponse" and S.blen(shape) > 16:
                    continue    # the library's own decode of its own 31-value FIFO PDU fails (KF-fifo-*): "equal to the original" is undefined
                if framing == "ascii" and S.blen(shape) > 100:
                    continue    # > 200 hex characters: the round-trip does not finish within the budget (the maximum-size ASCII frame is C06's max-size obligation)
                out.append(Obl("rt." + key, make_rt(framing, S, shape), bounds=bounds, timeout=T2, contracts=contracts,
                               lemmas=lem, findings=fnd if (tier != "quick" or S.name in ("WriteSingleRegisterRequest", "ReadHoldingRegistersResponse")) else (),
                               whole_finding=whole("rt", framing, S, shape)))
    return out
