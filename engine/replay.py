"""Concrete replay of a counterexample against the real, unpatched code.

Runs WITHOUT CrossHair, the plugin, or any stub/model: real logging, real CRC, real binascii.

usage: python -m engine.replay <replay.json>       (exit 1 if the failure reproduces, 0 if it does not,
                                                   3 if the inputs do not satisfy the obligation's assumptions)
"""
import json
import logging
import os
import sys
import traceback

sys.path.insert(0, os.path.dirname(os.path.dirname(os.path.abspath(__file__))))


REPLAY_LIMIT = int(os.environ.get("VERIF_REPLAY_LIMIT", "60"))


class ReplayHang(BaseException):
    pass


_TRIPPED = []


def _on_alarm(signum, frame):
    _TRIPPED.append(1)
    raise ReplayHang()


def replay(spec):
    assert "crosshair" not in sys.modules
    logging.disable(logging.CRITICAL)  # keep stdout clean; the code under test still formats its messages
    from engine import hlib
    from engine.worker import find
    o = find(spec["module"], spec["tier"], spec["obligation"])
    hlib.STATE["symbolic"] = False
    hlib.STATE["witness"] = spec.get("witness")
    if o.kind == "smt":
        r = o.replay(spec["args"])
        return ("fails" if r["fails"] else "passes"), r.get("observed", "")
    args = {k: eval(v, {"__builtins__": {"bytearray": bytearray, "bytes": bytes, "True": True, "False": False,
                                         "None": None, "set": set, "frozenset": frozenset, "float": float,
                                         "dict": dict, "list": list, "tuple": tuple}})
            for k, v in spec["args"].items()}
    import signal
    signal.signal(signal.SIGALRM, _on_alarm)
    # (repeating: code under test with a bare `except:` may swallow the first alarm)
    signal.setitimer(signal.ITIMER_REAL, REPLAY_LIMIT, 1.0)
    hang = "the real code did not return within %d s on this concrete input (non-termination)" % REPLAY_LIMIT
    try:
        ret = o.fn(**args)
        if _TRIPPED:
            return "fails", hang + " (the interrupt was swallowed by the code under test)"
    except ReplayHang:
        return "fails", hang
    except hlib.AssumeFailed:
        return "assume-failed", "inputs outside the obligation's assumptions"
    except Exception as e:
        tb = traceback.format_exc()
        return "fails", "raised %s: %s\n%s" % (type(e).__name__, e, tb[-1500:])
    finally:
        signal.setitimer(signal.ITIMER_REAL, 0)
    if ret:
        return "passes", "harness returned %r" % (ret,)
    return "fails", "harness returned %r (property violated). %s" % (ret, " | ".join(hlib.NOTES[-6:]))


def main():
    with open(sys.argv[1]) as f:
        spec = json.load(f)
    outcome, observed = replay(spec)
    print(json.dumps({"outcome": outcome, "observed": observed}))
    sys.exit({"fails": 1, "passes": 0, "assume-failed": 3}[outcome])


if __name__ == "__main__":
    main()
