"""Engine-B kernel lemmas K1..K5 (see DESIGN 2.2). Each is an Obl(kind="smt") whose run() reads the
kernel's source from /repo's current working tree (inspect + ast), translates it to z3 with pysym and
discharges UNSAT queries. Used as dependencies by the Engine-A contracts."""
import random

import z3

from engine import pysym
from engine.obl import Obl
from engine.pysym import SBytes, Prover, Unsupported
from spec import checksums as ref

W = 32


def _bv(name, hi):
    v = z3.BitVec(name, W)
    return v, z3.ULE(v, z3.BitVecVal(hi, W))


def _result(p, ok, unknown, detail, cex=None):
    st = "CONFIRMED" if ok and not unknown else ("REFUTED" if cex is not None else "UNKNOWN")
    return {"status": st, "queries": p.queries, "solver_secs": round(p.secs, 3), "detail": detail,
            "cex": cex, "query_log": p.log[-40:]}


def _prove_all(p, items, assumptions):
    """items: list of (what, claim). Returns (all_proved, any_unknown, first_refuted(what, model))"""
    allok, unk, bad = True, False, None
    for what, claim in items:
        st, m = p.valid(claim, assumptions, what)
        if st == "refuted":
            allok = False
            if bad is None:
                bad = (what, m)
        elif st != "proved":
            allok, unk = False, True
    return allok, unk, bad


# ----------------------------------------------------------------------------------------- K1: CRC
def _crc_concrete_search(limit2=True):
    """Confirm a solver counterexample concretely: find a short input where the real computeCRC differs
    from the reference (all strings of length 0..2, then a seeded random batch)."""
    from pymodbus.utilities import computeCRC
    def exp(d):
        c = ref.crc16_modbus(d)
        return ((c & 0xFF) << 8) | (c >> 8)
    for d in [b""] + [bytes([a]) for a in range(256)]:
        if computeCRC(d) != exp(d):
            return list(d)
    for a in range(256):
        for b in range(256):
            d = bytes([a, b])
            if computeCRC(d) != exp(d):
                return list(d)
    rnd = random.Random(1)
    for _ in range(2000):
        d = bytes(rnd.randrange(256) for _ in range(rnd.randrange(3, 40)))
        if computeCRC(d) != exp(d):
            return list(d)
    return None


def k1_run(nmax):
    def run():
        import pymodbus.utilities as U
        p = Prover()
        detail = []
        try:
            crc, c1 = _bv("crc", 0xFFFF)
            a, c2 = _bv("a", 0xFF)
            env, it, loop = pysym.run_loop_body(U.computeCRC, {"crc": crc, "a": a}, "bv", W)
            step = env["crc"]
            items = [("K1a loop body == bit-serial CRC-16/0xA001 step", step == ref.z3_crc_step(crc, a, W)),
                     ("K1b 16-bit state invariant", z3.ULE(step, z3.BitVecVal(0xFFFF, W)))]
            items += [("K1a side condition %d" % i, sc) for i, sc in enumerate(it.side)]
            ok1, unk1, bad1 = _prove_all(p, items, [c1, c2])
            detail.append("loop variable=%s; body lifted from %d AST statements" % (ast_name(loop.target), len(loop.body)))
            # epilogue
            rv, it2, _ = pysym.statements_after_loop(U.computeCRC, {"crc": crc}, "bv", W)
            swap = ((crc & 0xFF) << 8) | z3.LShR(crc, 8)
            items = [("K1d epilogue == byte swap", rv == swap)] + [("K1d side %d" % i, sc) for i, sc in enumerate(it2.side)]
            ok2, unk2, bad2 = _prove_all(p, items, [c1])
            # whole function, n = 0..nmax bytes (includes init 0xFFFF)
            ok3, unk3, bad3 = True, False, None
            for n in range(0, nmax + 1):
                bs = [_bv("d%d" % i, 0xFF) for i in range(n)]
                res, it3 = pysym.run_function(U.computeCRC, [SBytes([b for b, _ in bs])], "bv", W)
                st = z3.BitVecVal(0xFFFF, W)
                for b, _ in bs:
                    st = ref.z3_crc_step(st, b, W)
                exp = ((st & 0xFF) << 8) | z3.LShR(st, 8)
                res = res if pysym.is_z(res) else z3.BitVecVal(res, W)
                items = [("K1c/e computeCRC over %d symbolic bytes == reference" % n, res == exp)]
                items += [("K1e side n=%d #%d" % (n, i), sc) for i, sc in enumerate(it3.side)]
                o, u, b_ = _prove_all(p, items, [c for _, c in bs])
                ok3, unk3 = ok3 and o, unk3 or u
                bad3 = bad3 or b_
            # translator validation (Serval-style): concrete vectors through the real function and the interpreter
            vec = [b"", b"\x01", b"\x11\x03\x06\xae\x41\x56\x52\x43\x40", b"\x01\x03\x08\x2b\x00\x02", b"123456789"]
            rnd = random.Random(7)
            vec += [bytes(rnd.randrange(256) for _ in range(rnd.randrange(1, 12))) for _ in range(40)]
            for d in vec:
                got, _it = pysym.run_function(U.computeCRC, [SBytes(list(d))], "bv", W)
                if got != U.computeCRC(d):
                    return _result(p, False, True, "translator validation failed on %r: interpreter %r real %r" % (d, got, U.computeCRC(d)))
            detail.append("translator validated on %d concrete vectors" % len(vec))
        except Unsupported as e:
            return _result(p, False, True, "unsupported construct: %s" % e)
        ok = ok1 and ok2 and ok3
        unk = unk1 or unk2 or unk3
        bad = bad1 or bad2 or bad3
        cex = None
        if bad:
            found = _crc_concrete_search()
            detail.append("failed: %s; model %s" % (bad[0], str(bad[1])[:200]))
            if found is not None:
                cex = {"fn": "computeCRC", "data": found}
            else:
                unk = True
        return _result(p, ok, unk, "; ".join(detail), cex)
    return run


def ast_name(t):
    return getattr(t, "id", "?")


def crc_replay(cex):
    from pymodbus.utilities import computeCRC
    d = bytes(cex["data"])
    c = ref.crc16_modbus(d)
    exp = ((c & 0xFF) << 8) | (c >> 8)
    got = computeCRC(d)
    return {"fails": got != exp, "observed": "computeCRC(%r) = 0x%04x, CRC-16/Modbus (byte-swapped) = 0x%04x" % (d, got, exp)}


# ----------------------------------------------------------------------------------------- K2: LRC
def k2_run(nmax):
    def run():
        import pymodbus.utilities as U
        p = Prover()
        ok, unk, cex = True, False, None
        try:
            for n in range(0, nmax + 1):
                bs = [_bv("d%d" % i, 0xFF) for i in range(n)]
                res, it = pysym.run_function(U.computeLRC, [SBytes([b for b, _ in bs])], "bv", W)
                s = z3.BitVecVal(0, W)
                for b, _ in bs:
                    s = s + b
                exp = (z3.BitVecVal(256, W) - (s & 0xFF)) & 0xFF
                res = res if pysym.is_z(res) else z3.BitVecVal(res, W)
                items = [("K2 computeLRC over %d bytes == (-sum) mod 256" % n, res == exp)]
                items += [("K2 side n=%d #%d" % (n, i), sc) for i, sc in enumerate(it.side)]
                o, u, bad = _prove_all(p, items, [c for _, c in bs])
                ok, unk = ok and o, unk or u
                if bad and cex is None:
                    m = bad[1]
                    data = [m.eval(b, model_completion=True).as_long() for b, _ in bs]
                    cex = {"fn": "computeLRC", "data": data}
            for d in (b"", b"\x00", b"\xff\xff", b"\x01\x03\x00\x00\x00\x0a", bytes(range(40))):
                got, _ = pysym.run_function(U.computeLRC, [SBytes(list(d))], "bv", W)
                if got != U.computeLRC(d):
                    return _result(p, False, True, "translator validation failed on %r" % (d,))
        except Unsupported as e:
            return _result(p, False, True, "unsupported construct: %s" % e)
        return _result(p, ok, unk, "lengths 0..%d" % nmax, cex)
    return run


def lrc_replay(cex):
    from pymodbus.utilities import computeLRC
    d = bytes(cex["data"])
    got, exp = computeLRC(d), ref.lrc(d)
    return {"fails": got != exp, "observed": "computeLRC(%r) = %r, reference %r" % (d, got, exp)}


# ----------------------------------------------------------------------------------------- K3: bit packing
def k3_run(lengths):
    def run():
        import pymodbus.utilities as U
        p = Prover()
        ok, unk, cex = True, False, None
        try:
            for n in lengths:
                bits = [z3.Bool("b%d" % i) for i in range(n)]
                exp = []
                for j in range(0, n, 8):
                    v = z3.BitVecVal(0, W)
                    for k, b in enumerate(bits[j:j + 8]):
                        v = v + z3.If(b, z3.BitVecVal(1 << k, W), z3.BitVecVal(0, W))
                    exp.append(v)
                # (an implementation whose output length depends on the data cannot be merged into one term: one run per side)
                for pc, res, it in pysym.run_function_paths(U.pack_bitstring, [list(bits)], "bv", W):
                    if len(res) != len(exp):
                        st, m = p.valid(z3.BoolVal(False), pc, "K3 pack_bitstring(%d bits): a path returning %d bytes instead of %d is infeasible" % (n, len(res), len(exp)))
                        if st == "refuted":
                            ok = False
                            cex = cex or {"fn": "pack_bitstring", "bits": [z3.is_true(m.eval(b, model_completion=True)) for b in bits]}
                        elif st != "proved":
                            ok, unk = False, True
                        continue
                    claim = z3.And(*[(r if pysym.is_z(r) else z3.BitVecVal(r, W)) == e for r, e in zip(res, exp)]) if exp else z3.BoolVal(True)
                    items = [("K3 pack_bitstring(%d bits) == LSB-first bytes, zero padded, length ceil(n/8)" % n, claim)]
                    if it.side:
                        items.append(("K3 pack side conditions n=%d" % n, z3.And(*it.side)))
                    o, u, bad = _prove_all(p, items, pc)
                    ok, unk = ok and o, unk or u
                    if bad and cex is None:
                        cex = {"fn": "pack_bitstring", "bits": [z3.is_true(bad[1].eval(b, model_completion=True)) for b in bits]}
            for nb in sorted(set((n + 7) // 8 for n in lengths if n <= 64)):
                bs = [_bv("d%d" % i, 0xFF) for i in range(nb)]
                res, it = pysym.run_function(U.unpack_bitstring, [SBytes([b for b, _ in bs])], "bv", W,
                                             extra_globals={"IS_PYTHON3": True})
                if len(res) != 8 * nb:
                    ok = False
                    cex = cex or {"fn": "unpack_bitstring", "data": [0] * nb}
                    continue
                claims = []
                for i, r in enumerate(res):
                    b = bs[i // 8][0]
                    claims.append(r == ((z3.LShR(b, i % 8) & 1) == 1))
                items = [("K3 unpack_bitstring(%d bytes): bit i == (byte[i/8] >> i%%8) & 1" % nb, z3.And(*claims) if claims else z3.BoolVal(True))]
                o, u, bad = _prove_all(p, items, [c for _, c in bs])
                ok, unk = ok and o, unk or u
                if bad and cex is None:
                    cex = {"fn": "unpack_bitstring", "data": [bad[1].eval(b, model_completion=True).as_long() for b, _ in bs]}
            rnd = random.Random(3)
            for _ in range(30):
                bl = [rnd.random() < 0.5 for _ in range(rnd.randrange(0, 40))]
                got, _it = pysym.run_function(U.pack_bitstring, [list(bl)], "bv", W)
                if bytes(got) != U.pack_bitstring(bl):
                    return _result(p, False, True, "translator validation failed on %r" % (bl,))
        except Unsupported as e:
            return _result(p, False, True, "unsupported construct: %s" % e)
        return _result(p, ok, unk, "pack lengths %s; unpack byte lengths up to 8" % (list(lengths)[:6] + ["..."] if len(lengths) > 6 else list(lengths)), cex)
    return run


def _ref_pack(bits):
    out = bytearray((len(bits) + 7) // 8)
    for i, b in enumerate(bits):
        if b:
            out[i // 8] |= 1 << (i % 8)
    return bytes(out)


def bits_replay(cex):
    import pymodbus.utilities as U
    if cex["fn"] == "pack_bitstring":
        got, exp = U.pack_bitstring(cex["bits"]), _ref_pack(cex["bits"])
        return {"fails": got != exp, "observed": "pack_bitstring(%r) = %r, reference %r" % (cex["bits"], got, exp)}
    d = bytes(cex["data"])
    got = U.unpack_bitstring(d)
    exp = [bool((d[i // 8] >> (i % 8)) & 1) for i in range(8 * len(d))]
    return {"fails": got != exp, "observed": "unpack_bitstring(%r) = %r, reference %r" % (d, got, exp)}


def K1(tier):
    n = 2 if tier == "quick" else 3
    return Obl("K1.crc", kind="smt", run=k1_run(n), replay=crc_replay, timeout=120 if tier == "quick" else 600,
               bounds="loop body: all (crc < 2^16, byte < 2^8); epilogue: all crc < 2^16; whole function for 0..%d symbolic bytes; "
                      "arbitrary lengths follow by induction over the loop (paper argument)" % n,
               functions=["pymodbus/utilities.py:computeCRC", "pymodbus/utilities.py:__generate_crc16_table (table obtained by running it)"])


def K2(tier):
    n = 8 if tier == "quick" else 16
    return Obl("K2.lrc", kind="smt", run=k2_run(n), replay=lrc_replay, timeout=120 if tier == "quick" else 600,
               bounds="all byte strings of length 0..%d" % n, functions=["pymodbus/utilities.py:computeLRC"])


def K3(tier):
    ls = list(range(0, 18)) + [2000] if tier == "quick" else list(range(0, 65)) + [1968, 2000, 2040]
    return Obl("K3.bits", kind="smt", run=k3_run(ls), replay=bits_replay, timeout=120 if tier == "quick" else 900,
               bounds="pack_bitstring for every bit list of each length in %s; unpack_bitstring for 0..8 bytes" % (
                   "0..17, 2000" if tier == "quick" else "0..64, 1968, 2000, 2040"),
               functions=["pymodbus/utilities.py:pack_bitstring", "pymodbus/utilities.py:unpack_bitstring"])
