"""C05 -- invalid requests get the right exception and change nothing.

inv.fc<N>...      the C04 step harness restricted to requests the reference model answers with an exception:
                  exception code per the spec's decision order (03 before 02), fc|0x80, all four tables unchanged.
limits.fc<N>      quantity limits on the full 16-bit quantity against default 65536-cell tables.
unassigned        every function code 1..127 outside the decoder table -> exception 01, nothing changed.
"""
from typing import List

from engine.hlib import assume, same, explain, known
from engine.obl import Obl
from spec import regfile, pdu
from harness import c04

LEVEL = "model_checking"
EXPLANATION = c04.EXPLANATION + " Restricted to requests the reference model rejects; plus full-range quantity limits and the sweep of unassigned function codes."
ASSUMPTIONS = c04.ASSUMPTIONS + ["limits.*: tables are 2100-cell zero blocks at address 0 (larger than every quantity limit); the request body is fully symbolic"]


CELLS = 2100     # larger than every quantity limit, so "quantity too large" and "range outside the table" are distinct causes


def make_limits(fc, shape):
    L = c04.body_len(fc, shape)

    def limits(b: bytes) -> bool:
        from pymodbus.factory import ServerDecoder
        from pymodbus.datastore import ModbusSlaveContext
        assume(len(b) == L)
        zeros = [0] * CELLS
        code = regfile.verdict(fc, b, (0, zeros), False)
        assume(code != 0)
        exp_pdu = regfile.exc(fc, code)
        if fc == 5:
            w = regfile.u16(b, 2)
            known("KF-coil-value-unchecked", not ((w == 0) or (w == 0xFF00)))
        if fc == 15:
            known("KF-coils-quantity-vs-data", c04._coils_short(b))
        if fc in (16, 23):
            known("KF-write-registers-short-data", c04._regs_short(fc, b))
        ctx = ModbusSlaveContext(di=c04._block(0, list(zeros)), co=c04._block(0, list(zeros)),
                                 hr=c04._block(0, list(zeros)), ir=c04._block(0, list(zeros)))
        req = ServerDecoder().decode(bytes([fc]) + b)
        if req is None:
            return False
        resp = req.execute(ctx)
        if not same(bytes([resp.function_code]) + resp.encode(), exp_pdu, "exception PDU"):
            return False
        for k in "dcih":
            if ctx.store[k].values != zeros:
                explain("table %s changed", k)
                return False
        return True
    return limits


def unassigned(b: bytes) -> bool:
    from pymodbus.factory import ServerDecoder
    from pymodbus.datastore import ModbusSlaveContext
    assume(len(b) <= 4)
    ctx = ModbusSlaveContext(di=c04._block(0, [1, 1]), co=c04._block(0, [1, 1]), hr=c04._block(0, [1, 1]), ir=c04._block(0, [1, 1]))
    dec = ServerDecoder()
    for fc in range(1, 128):
        if fc in pdu.SUPPORTED_FCS:
            continue
        req = dec.decode(bytes([fc]) + b)
        if req is None:
            explain("decoder returned None for fc %d", fc)
            return False
        resp = req.execute(ctx)
        if bytes([resp.function_code]) + resp.encode() != bytes([fc + 0x80, 1]):
            explain("fc %d answered %r", fc, bytes([resp.function_code]) + resp.encode())
            return False
    for k in "dcih":
        if ctx.store[k].values != [1, 1]:
            return False
    return True


def obligations(tier):
    from harness import kernels
    T = 120 if tier == "quick" else 900
    out = [kernels.K3(tier)] + c04.step_obligations(tier, True, "inv") + c04.extra_obligations(tier, True, "inv")
    for fc in (1, 2, 3, 4, 5, 6, 15, 16, 22, 23):
        shape = c04.SHAPES.get(fc, [None])[0]
        out.append(Obl("limits.fc%d" % fc, make_limits(fc, shape), timeout=T,
                       bounds="2100-cell zero tables at address 0, all %d body bytes symbolic (every quantity 0..65535, every address), rejected requests only" % c04.body_len(fc, shape),
                       contracts=("bits",) if fc in (1, 2, 15) else (), findings=c04.FINDINGS.get(fc, ())))
    out.append(Obl("unassigned", unassigned, timeout=T,
                   bounds="every function code 1..127 not in the decoder table (concrete sweep), body of 0..4 symbolic bytes"))
    return out
