"""Reference PDU layouts, written from the MODBUS Application Protocol Specification V1.1b3 (section 6)
and independent of pymodbus' encode/decode code. Everything that takes body bytes works on symbolic
bytes (linear arithmetic only, no branching on content).

A message spec `S` describes one (function code, direction[, sub-function]) PDU:
  S.name            pymodbus class expected for it
  S.fc, S.dir       function code, "req" (ServerDecoder) / "rsp" (ClientDecoder)
  S.shapes(tier)    list of concrete shapes (list lengths etc.); every value inside a shape is symbolic
  S.blen(shape)     length of the PDU body (bytes after the function code)
  S.wf(b, shape)    list of conditions making body b a spec-conformant PDU of that shape
  S.fields(b, shape)    expected field values, derived from the wire bytes (reference decoder)
  S.build(f, shape)     construct the pymodbus message from those field values as a user would
  S.get(m, shape)       normalised field values of a pymodbus message (declared normalisation, DESIGN 3)
"""


def u16(b, i):
    return b[i] * 256 + b[i + 1]


def bit(b, i, k):
    """bit k (LSB = 0) of byte b[i] as a bool"""
    from engine.hlib import bit_of
    return bit_of(b[i], k)


def F():
    import pymodbus.factory as fac
    return fac


class Spec(object):
    sub = None

    def __init__(self, name, fc, dir):
        self.name, self.fc, self.dir = name, fc, dir

    def shapes(self, tier):
        return [None]

    def wf(self, b, shape):
        return []

    def wf_enc(self, b, shape):
        """extra conditions for the encode direction (fields the constructor cannot express)"""
        return []

    def get_inputs(self, m, shape):
        """the fields a caller sets (what encode() must leave alone); default: all fields"""
        return self.get(m, shape)

    def cls(self):
        return getattr(F(), self.name)

    def key(self, shape):
        return "%s%s" % (self.name, "" if shape is None else "[%s]" % (shape,))


class Fixed(Spec):
    """fixed layout of 8/16-bit unsigned fields"""

    def __init__(self, name, fc, dir, layout, ctor=None, consts=(), norm=None, extra=None):
        Spec.__init__(self, name, fc, dir)
        self.extra = extra
        self.layout = layout            # [(field, nbytes)]
        self.ctor = ctor
        self.consts = consts            # [(offset, value)] bytes fixed by the spec
        self.norm = norm or {}

    def blen(self, shape):
        return sum(n for _, n in self.layout)

    def wf(self, b, shape):
        return [b[o] == v for o, v in self.consts] + (self.extra(b) if self.extra else [])

    def fields(self, b, shape):
        f, o = {}, 0
        for name, n in self.layout:
            if not name.startswith("_"):
                f[name] = b[o] if n == 1 else u16(b, o)
            o += n
        return f

    def build(self, f, shape):
        if self.ctor:
            return self.ctor(self.cls(), f)
        return self.cls()(**f)

    def get(self, m, shape):
        return {k: getattr(m, k) for k, n in self.layout if not k.startswith("_")}


class CoilWord(Fixed):
    """address + 0xFF00/0x0000 (FC 5 request and response)"""

    def wf(self, b, shape):
        return [b[3] == 0, (b[2] == 0xFF) | (b[2] == 0)]

    def fields(self, b, shape):
        return {"address": u16(b, 0), "value": b[2] == 0xFF}

    def build(self, f, shape):
        return self.cls()(f["address"], f["value"])

    def get(self, m, shape):
        return {"address": m.address, "value": m.value}


class BitsResponse(Spec):
    """FC 1/2 response: byte count N = ceil(m/8), m bits LSB first, zero padded. shape = m (number of bits)"""

    def shapes(self, tier):
        # (2000 bits: lemma K3 proves the packing at that size; the message-level harness stops at 64)
        return [1, 8, 9, 16] if tier == "quick" else [1, 7, 8, 9, 15, 16, 17, 24, 64]

    def blen(self, m):
        return 1 + (m + 7) // 8

    def wf(self, b, m):
        n = (m + 7) // 8
        c = [b[0] == n]
        for k in range(m % 8, 8):
            if m % 8:
                c.append(bit(b, n, k) == False)   # noqa: E712 (symbolic)
        return c

    def fields(self, b, m):
        return {"bits": [bit(b, 1 + i // 8, i % 8) for i in range(m)]}

    def build(self, f, m):
        return self.cls()(list(f["bits"]))

    def get(self, msg, m):
        bits = list(msg.bits)
        # declared normalisation: bit lists compare up to zero padding to a byte boundary
        if len(bits) not in (m, 8 * ((m + 7) // 8)):
            return {"bits": "<bad length %d>" % len(bits)}
        for x in bits[m:]:
            if x:
                return {"bits": "<non-zero padding>"}
        return {"bits": bits[:m]}


class RegsResponse(Spec):
    """FC 3/4/23 response: byte count 2N, N registers. shape = N"""

    def shapes(self, tier):
        return [1, 2, 3] if tier == "quick" else [1, 2, 3, 4, 8, 125]

    def blen(self, n):
        return 1 + 2 * n

    def wf(self, b, n):
        return [b[0] == 2 * n]

    def fields(self, b, n):
        return {"registers": [u16(b, 1 + 2 * i) for i in range(n)]}

    def build(self, f, n):
        return self.cls()(list(f["registers"]))

    def get(self, m, n):
        return {"registers": list(m.registers)}


class WriteCoilsRequest(Spec):
    """FC 15 request: address, quantity m, byte count ceil(m/8), bits LSB first zero padded. shape = m"""

    def shapes(self, tier):
        return [1, 8, 9] if tier == "quick" else [1, 7, 8, 9, 16, 17, 64]

    def blen(self, m):
        return 5 + (m + 7) // 8

    def wf(self, b, m):
        n = (m + 7) // 8
        c = [u16(b, 2) == m, b[4] == n]
        if m % 8:
            for k in range(m % 8, 8):
                c.append(bit(b, 4 + n, k) == False)   # noqa: E712
        return c

    def fields(self, b, m):
        return {"address": u16(b, 0), "values": [bit(b, 5 + i // 8, i % 8) for i in range(m)]}

    def build(self, f, m):
        return self.cls()(f["address"], list(f["values"]))

    def get(self, msg, m):
        return {"address": msg.address, "values": list(msg.values)}


class WriteRegsRequest(Spec):
    """FC 16 request: address, quantity N, byte count 2N, values. shape = N"""

    def shapes(self, tier):
        return [1, 2] if tier == "quick" else [1, 2, 3, 8, 123]

    def blen(self, n):
        return 5 + 2 * n

    def wf(self, b, n):
        return [u16(b, 2) == n, b[4] == 2 * n]

    def fields(self, b, n):
        return {"address": u16(b, 0), "values": [u16(b, 5 + 2 * i) for i in range(n)]}

    def build(self, f, n):
        return self.cls()(f["address"], list(f["values"]))

    def get(self, m, n):
        return {"address": m.address, "values": list(m.values)}


class ReadWriteRegsRequest(Spec):
    """FC 23 request. shape = N registers written"""

    def shapes(self, tier):
        return [1, 2] if tier == "quick" else [1, 2, 3, 121]

    def blen(self, n):
        return 9 + 2 * n

    def wf(self, b, n):
        return [u16(b, 6) == n, b[8] == 2 * n]

    def fields(self, b, n):
        return {"read_address": u16(b, 0), "read_count": u16(b, 2), "write_address": u16(b, 4),
                "write_registers": [u16(b, 9 + 2 * i) for i in range(n)]}

    def build(self, f, n):
        return self.cls()(read_address=f["read_address"], read_count=f["read_count"],
                          write_address=f["write_address"], write_registers=list(f["write_registers"]))

    def get(self, m, n):
        return {"read_address": m.read_address, "read_count": m.read_count, "write_address": m.write_address,
                "write_registers": list(m.write_registers)}


class Diag(Spec):
    """FC 8: sub-function (2) + data words. shape = number of data words (1 for all but Return Query Data)"""

    def __init__(self, name, dir, sub, ctor_kind="data", words=(1,)):
        Spec.__init__(self, name, 8, dir)
        self.sub = sub
        self.ctor_kind = ctor_kind
        self.words = words

    def shapes(self, tier):
        return list(self.words)

    def blen(self, n):
        return 2 + 2 * n

    def wf(self, b, n):
        c = [u16(b, 0) == self.sub]
        if self.ctor_kind == "toggle":
            c += [b[3] == 0, (b[2] == 0xFF) | (b[2] == 0)]
        if self.ctor_kind == "none":
            c += [b[2] == 0, b[3] == 0]
        if self.ctor_kind == "plusop":
            c += [b[2] == 0, (b[3] == 3) | (b[3] == 4)]
        return c

    def fields(self, b, n):
        return {"sub_function_code": self.sub, "message": [u16(b, 2 + 2 * i) for i in range(n)]}

    def build(self, f, n):
        cls = self.cls()
        if self.ctor_kind == "toggle":
            return cls(f["message"][0] == 0xFF00)
        if self.ctor_kind == "none":
            return cls()
        if self.ctor_kind == "plusop":
            m = cls()
            m.message = f["message"][0]
            return m
        if self.ctor_kind == "list":
            return cls(list(f["message"]))
        return cls(f["message"][0])

    def get(self, m, n):
        msg = m.message
        # declared normalisation: int / list / tuple all compare as the sequence of 16-bit words on the wire;
        # an empty message (ForceListenOnlyMode response) stands for the single word 0
        if isinstance(msg, (list, tuple)):
            words = list(msg)
        elif msg is None:
            words = []
        else:
            words = [msg]
        if self.ctor_kind == "none" and words == []:
            words = [0]
        return {"sub_function_code": m.sub_function_code, "message": words}


class EventLogResponse(Spec):
    """FC 12 response. shape = number of event bytes"""

    def shapes(self, tier):
        return [0, 2] if tier == "quick" else [0, 1, 2, 4, 64]

    def blen(self, n):
        return 7 + n

    def wf(self, b, n):
        return [b[0] == 6 + n, (u16(b, 1) == 0) | (u16(b, 1) == 0xFFFF)]

    def fields(self, b, n):
        # status word: 0xFFFF = busy (still processing a program command), 0x0000 = ready
        return {"status": u16(b, 1) == 0, "event_count": u16(b, 3), "message_count": u16(b, 5),
                "events": [b[7 + i] for i in range(n)]}

    def build(self, f, n):
        return self.cls()(status=f["status"], event_count=f["event_count"], message_count=f["message_count"],
                          events=list(f["events"]))

    def get(self, m, n):
        return {"status": bool(m.status), "event_count": m.event_count, "message_count": m.message_count,
                "events": list(m.events)}


class EventCounterResponse(Fixed):
    def __init__(self):
        Fixed.__init__(self, "GetCommEventCounterResponse", 11, "rsp", [("status", 2), ("count", 2)])

    def wf(self, b, shape):
        return [(u16(b, 0) == 0) | (u16(b, 0) == 0xFFFF)]

    def fields(self, b, shape):
        return {"status": u16(b, 0) == 0, "count": u16(b, 2)}

    def build(self, f, shape):
        m = self.cls()(f["count"])
        m.status = f["status"]
        return m

    def get(self, m, shape):
        return {"status": bool(m.status), "count": m.count}


class SlaveIdResponse(Spec):
    """FC 17 response: byte count, identifier (n bytes, device specific), run indicator 0x00/0xFF. shape = n"""

    def shapes(self, tier):
        return [1, 3] if tier == "quick" else [0, 1, 2, 3, 8]

    def blen(self, n):
        return 2 + n

    def wf(self, b, n):
        return [b[0] == n + 1, (b[1 + n] == 0) | (b[1 + n] == 0xFF)]

    def fields(self, b, n):
        return {"identifier": b[1:1 + n], "status": b[1 + n] == 0xFF}

    def build(self, f, n):
        return self.cls()(f["identifier"], f["status"])

    def get(self, m, n):
        return {"identifier": m.identifier, "status": bool(m.status)}


class FileReadRequest(Spec):
    """FC 20 request: byte count 7n, n x (6, file, record, length). shape = n"""

    def shapes(self, tier):
        return [1, 2] if tier == "quick" else [1, 2, 3, 35]

    def blen(self, n):
        return 1 + 7 * n

    def wf(self, b, n):
        return [b[0] == 7 * n] + [b[1 + 7 * i] == 6 for i in range(n)]

    def fields(self, b, n):
        return {"records": [(u16(b, 2 + 7 * i), u16(b, 4 + 7 * i), u16(b, 6 + 7 * i)) for i in range(n)]}

    def build(self, f, n):
        FR = F().FileRecord
        return self.cls()([FR(file_number=a, record_number=r, record_length=l) for a, r, l in f["records"]])

    def get(self, m, n):
        return {"records": [(r.file_number, r.record_number, r.record_length) for r in m.records]}


class FileWrite(Spec):
    """FC 21 request and response: data length, n x (6, file, record, length L, 2L data bytes). shape = tuple of L's"""

    def shapes(self, tier):
        return [(1,), (2, 1)] if tier == "quick" else [(1,), (0,), (2, 1), (1, 1, 1), (119,)]

    def blen(self, ls):
        return 1 + sum(7 + 2 * l for l in ls)

    def offs(self, ls):
        o, out = 1, []
        for l in ls:
            out.append(o)
            o += 7 + 2 * l
        return out

    def wf(self, b, ls):
        c = [b[0] == self.blen(ls) - 1]
        for o, l in zip(self.offs(ls), ls):
            c += [b[o] == 6, u16(b, o + 5) == l]
        return c

    def fields(self, b, ls):
        return {"records": [(u16(b, o + 1), u16(b, o + 3), l, b[o + 7:o + 7 + 2 * l]) for o, l in zip(self.offs(ls), ls)]}

    def build(self, f, ls):
        FR = F().FileRecord
        return self.cls()([FR(file_number=a, record_number=r, record_data=d) for a, r, l, d in f["records"]])

    def get(self, m, ls):
        return {"records": [(r.file_number, r.record_number, r.record_length, r.record_data) for r in m.records]}


class FileReadResponse(Spec):
    """FC 20 response: data length, n x (file resp length = 1 + 2L, ref type 6, 2L data bytes). shape = tuple of L's"""

    def shapes(self, tier):
        return [(1,), (2, 1)] if tier == "quick" else [(1,), (0,), (2, 1), (1, 1, 1), (120,)]

    def blen(self, ls):
        return 1 + sum(2 + 2 * l for l in ls)

    def offs(self, ls):
        o, out = 1, []
        for l in ls:
            out.append(o)
            o += 2 + 2 * l
        return out

    def wf(self, b, ls):
        c = [b[0] == self.blen(ls) - 1]
        for o, l in zip(self.offs(ls), ls):
            c += [b[o] == 1 + 2 * l, b[o + 1] == 6]
        return c

    def fields(self, b, ls):
        return {"records": [b[o + 2:o + 2 + 2 * l] for o, l in zip(self.offs(ls), ls)]}

    def build(self, f, ls):
        FR = F().FileRecord
        return self.cls()([FR(record_data=d) for d in f["records"]])

    def get(self, m, ls):
        return {"records": [r.record_data for r in m.records]}


class FifoResponse(Spec):
    """FC 24 response: byte count (2) = 2 + 2N, FIFO count (2) = N, N registers. shape = N"""

    def shapes(self, tier):
        return [0, 2] if tier == "quick" else [0, 1, 2, 3, 31]

    def blen(self, n):
        return 4 + 2 * n

    def wf(self, b, n):
        return [u16(b, 0) == 2 + 2 * n, u16(b, 2) == n]

    def fields(self, b, n):
        return {"values": [u16(b, 4 + 2 * i) for i in range(n)]}

    def build(self, f, n):
        return self.cls()(list(f["values"]))

    def get(self, m, n):
        return {"values": list(m.values)}


class DevInfoResponse(Spec):
    """FC 43/14 response: 0x0E, read code, conformity, more follows (00/FF), next object id, object count,
    objects (id, length, value). shape = tuple of (object id, value length); ids concrete (they are dict keys),
    every other byte symbolic"""
    sub = 14

    def shapes(self, tier):
        # (the (90, 40) shape fills more than half of the 253-byte budget: repeated encodes must not carry a budget over;
        #  it is not last, so that C03's "largest quick shape" stays small)
        q = [((0, 1),), ((0, 90), (1, 40)), ((0, 2), (1, 1))]
        return q if tier == "quick" else q + [((0, 0),), ((1, 1), (2, 1), (0x80, 1)), ((0, 244),)]

    def blen(self, sh):
        return 6 + sum(2 + l for _, l in sh)

    def offs(self, sh):
        o, out = 6, []
        for _, l in sh:
            out.append(o)
            o += 2 + l
        return out

    def wf(self, b, sh):
        c = [b[0] == 0x0E, b[1] >= 1, b[1] <= 4, (b[3] == 0) | (b[3] == 0xFF), b[5] == len(sh)]
        for o, (oid, l) in zip(self.offs(sh), sh):
            c += [b[o] == oid, b[o + 1] == l]
        return c

    def wf_enc(self, b, sh):
        # the response object decides more-follows / next-object-id itself while encoding; a response whose
        # objects all fit says "no more" (C20 covers the paging case)
        return [b[3] == 0, b[4] == 0]

    def fields(self, b, sh):
        return {"read_code": b[1], "conformity": b[2], "more_follows": b[3], "next_object_id": b[4],
                "number_of_objects": b[5],
                "information": [(oid, b[o + 2:o + 2 + l]) for o, (oid, l) in zip(self.offs(sh), sh)]}

    def build(self, f, sh):
        # pymodbus' response object computes more_follows/next_object_id/number_of_objects itself in encode();
        # only what the constructor and public attributes accept is set here.
        m = self.cls()(f["read_code"], dict(f["information"]))
        m.conformity = f["conformity"]
        return m

    def get_inputs(self, m, sh):
        # more_follows / next_object_id / number_of_objects are outputs computed by encode() (paging), not inputs
        return {"read_code": m.read_code, "conformity": m.conformity,
                "information": sorted((k, v) for k, v in m.information.items())}

    def get(self, m, sh):
        return {"read_code": m.read_code, "conformity": m.conformity, "more_follows": m.more_follows,
                "next_object_id": m.next_object_id, "number_of_objects": m.number_of_objects,
                "information": sorted((k, v) for k, v in m.information.items())}


def _kw(*names):
    return lambda cls, f: cls(*[f[n] for n in names])


def _none(cls, f):
    return cls()


def all_specs():
    AC = [("address", 2), ("count", 2)]
    AV = [("address", 2), ("value", 2)]
    S = [
        Fixed("ReadCoilsRequest", 1, "req", AC, _kw("address", "count")),
        Fixed("ReadDiscreteInputsRequest", 2, "req", AC, _kw("address", "count")),
        Fixed("ReadHoldingRegistersRequest", 3, "req", AC, _kw("address", "count")),
        Fixed("ReadInputRegistersRequest", 4, "req", AC, _kw("address", "count")),
        CoilWord("WriteSingleCoilRequest", 5, "req", AV),
        Fixed("WriteSingleRegisterRequest", 6, "req", AV, _kw("address", "value")),
        Fixed("ReadExceptionStatusRequest", 7, "req", [], _none),
        Fixed("GetCommEventCounterRequest", 11, "req", [], _none),
        Fixed("GetCommEventLogRequest", 12, "req", [], _none),
        WriteCoilsRequest("WriteMultipleCoilsRequest", 15, "req"),
        WriteRegsRequest("WriteMultipleRegistersRequest", 16, "req"),
        Fixed("ReportSlaveIdRequest", 17, "req", [], _none),
        FileReadRequest("ReadFileRecordRequest", 20, "req"),
        FileWrite("WriteFileRecordRequest", 21, "req"),
        Fixed("MaskWriteRegisterRequest", 22, "req", [("address", 2), ("and_mask", 2), ("or_mask", 2)],
              _kw("address", "and_mask", "or_mask")),
        ReadWriteRegsRequest("ReadWriteMultipleRegistersRequest", 23, "req"),
        Fixed("ReadFifoQueueRequest", 24, "req", [("address", 2)], _kw("address")),
        Fixed("ReadDeviceInformationRequest", 43, "req", [("_mei", 1), ("read_code", 1), ("object_id", 1)],
              _kw("read_code", "object_id"), consts=[(0, 0x0E)], extra=lambda b: [b[1] >= 1, b[1] <= 4]),
        # ---- responses
        BitsResponse("ReadCoilsResponse", 1, "rsp"),
        BitsResponse("ReadDiscreteInputsResponse", 2, "rsp"),
        RegsResponse("ReadHoldingRegistersResponse", 3, "rsp"),
        RegsResponse("ReadInputRegistersResponse", 4, "rsp"),
        CoilWord("WriteSingleCoilResponse", 5, "rsp", AV),
        Fixed("WriteSingleRegisterResponse", 6, "rsp", AV, _kw("address", "value")),
        Fixed("ReadExceptionStatusResponse", 7, "rsp", [("status", 1)], _kw("status")),
        EventCounterResponse(),
        EventLogResponse("GetCommEventLogResponse", 12, "rsp"),
        Fixed("WriteMultipleCoilsResponse", 15, "rsp", AC, _kw("address", "count")),
        Fixed("WriteMultipleRegistersResponse", 16, "rsp", AC, _kw("address", "count")),
        SlaveIdResponse("ReportSlaveIdResponse", 17, "rsp"),
        FileReadResponse("ReadFileRecordResponse", 20, "rsp"),
        FileWrite("WriteFileRecordResponse", 21, "rsp"),
        Fixed("MaskWriteRegisterResponse", 22, "rsp", [("address", 2), ("and_mask", 2), ("or_mask", 2)],
              _kw("address", "and_mask", "or_mask")),
        RegsResponse("ReadWriteMultipleRegistersResponse", 23, "rsp"),
        FifoResponse("ReadFifoQueueResponse", 24, "rsp"),
        DevInfoResponse("ReadDeviceInformationResponse", 43, "rsp"),
    ]
    S[-1].sub = 14
    S[17].sub = 14
    # ---- diagnostics (FC 8) sub-functions, both directions
    simple = {2: "ReturnDiagnosticRegister", 3: "ChangeAsciiInputDelimiter", 10: "ClearCounters",
              11: "ReturnBusMessageCount", 12: "ReturnBusCommunicationErrorCount", 13: "ReturnBusExceptionErrorCount",
              14: "ReturnSlaveMessageCount", 16: "ReturnSlaveNAKCount", 17: "ReturnSlaveBusyCount",
              18: "ReturnSlaveBusCharacterOverrunCount", 19: "ReturnIopOverrunCount", 20: "ClearOverrunCount"}
    for d, suffix in (("req", "Request"), ("rsp", "Response")):
        S.append(Diag("ReturnQueryData" + suffix, d, 0, "list", words=(1,) if d == "req" else (1, 2)))
        S.append(Diag("RestartCommunicationsOption" + suffix, d, 1, "toggle"))
        for sub, nm in sorted(simple.items()):
            S.append(Diag(nm + suffix, d, sub))
        # pymodbus spells the sub-function 15 response class "ReturnSlaveNoReponseCountResponse"
        S.append(Diag("ReturnSlaveNoResponseCountRequest" if d == "req" else "ReturnSlaveNoReponseCountResponse", d, 15))
        if d == "req":
            # (the spec defines no response PDU for Force Listen Only Mode)
            S.append(Diag("ForceListenOnlyModeRequest", d, 4, "data"))
        S.append(Diag("GetClearModbusPlus" + suffix, d, 21, "plusop" if d == "req" else "list", words=(1,) if d == "req" else (1, 2)))
    return S


EXCEPTION_CODES = list(range(0, 256))
SUPPORTED_FCS = [1, 2, 3, 4, 5, 6, 7, 8, 11, 12, 15, 16, 17, 20, 21, 22, 23, 24, 43]
