#!/bin/bash
# usage: try_seed.sh <PROP> <worktree> [checks...]   -- confirm a seeded change and run checks against it
P=$1; WT=$2; shift; shift
CHECKS=${@:-$P}
cd $WT || exit 1
echo "== confirm in scratch worktree $WT"
git apply -R patch.diff 2>/dev/null; git status --short | grep -v '^??' ; 
/venv/bin/python demo.py >/dev/null 2>&1; echo "demo on unmodified tree: rc=$?"
git apply patch.diff || { echo "patch does not apply"; exit 1; }
/venv/bin/python demo.py >/tmp/demo_out.txt 2>&1; echo "demo with change: rc=$? ($(tail -1 /tmp/demo_out.txt | cut -c1-150))"
/venv/bin/python -m pytest -q -p no:cacheprovider --timeout=900 --continue-on-collection-errors 2>&1 | tail -1
echo "== run checks on /repo with the change"
cd /repo && git apply $WT/patch.diff || { echo "patch does not apply to /repo"; exit 1; }
for c in $CHECKS; do
  out=$(cd /verif && ./check $c quick 2>/dev/null); rc=$?
  echo "check $c rc=$rc :: $(echo "$out" | tail -1)"
  echo "$out" | grep -E "^(VIOLATION|HARNESS-ERROR)" | head -4
done
git -C /repo checkout -- . ; git -C /repo status --short | head -3
