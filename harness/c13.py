"""C13 -- client transactions end in bounded time with a result and recover.

fault.<framing>.r<retries>.e<retry_on_empty>.i<retry_on_invalid>: a scripted-transport client issues one read
request; what the transport does on each receive call is a SYMBOLIC choice among: the full correct reply, the
exception reply, nothing, half of the reply, symbolic garbage bytes, a valid frame for another unit, a stale reply
(older transaction id), OSError. Asserted: the call returns (never raises; a failing connect excepted), the request
is transmitted at most 1 + retries times, the result is an error object or a decoded response, and a following
transaction over a healthy transport returns its own correct reply.
retry.*: the documented retry options: a valid reply arriving within the retry budget after an empty (resp.
foreign-unit) answer is returned.
deadline.tcp: ModbusTcpClient._recv against a socket that delivers nothing, with a clock stub returning arbitrary
instants that advance by at least timeout/4 per observation: the call returns after a bounded number of polls.
"""
from engine.hlib import assume, same, explain, known
from engine.obl import Obl
from spec import adu
from harness.clientlib import make_client
from harness.c08 import is_error_object

LEVEL = "model_checking"
EXPLANATION = ("Bounded symbolic model checking of the client transaction loop (retry loop, _transact error handling, framer reset, "
               "_recv) under symbolic per-call transport faults, and of the TCP client's deadline loop under a symbolic clock.")
ASSUMPTIONS = ["scripts of up to 2*(1+retries) receive calls; retries 0..2; time.sleep is a no-op",
               "deadline.tcp: the clock advances by at least timeout/4 between two observations (otherwise 'bounded time' is meaningless); select() is a stub reporting readiness arbitrarily",
               "the scripted transport is the environment",
               "RTU/binary: garbage bytes and half frames are not themselves checksum-valid frames (the checksum is an uninterpreted function in the encoding)"]

BEHAVIOURS = ["full", "exception", "nothing", "half", "garbage", "other-unit", "stale", "oserror"]


def _frames(framing, unit, other, tid, v):
    tidb = bytes([tid // 256, tid % 256])
    st = (tid + 65536 - 2) % 65536
    return {
        "full": adu.ref_adu_clean(framing, bytes([3, 2, v[0], v[1]]), unit, tidb),
        "exception": adu.ref_adu_clean(framing, bytes([0x83, 2]), unit, tidb),
        "other-unit": adu.ref_adu_clean(framing, bytes([3, 2, v[0], v[1]]), other, tidb),
        "stale": adu.ref_adu_clean(framing, bytes([3, 2, v[2], v[3]]), unit, bytes([st // 256, st % 256])),
    }


def _not_valid(framing, data):
    from engine.hlib import crc16_from, lohi, lnot
    bad = False
    if framing == "rtu":
        cs = crc16_from(data, 0)
        for j in range(4, len(data) + 1):
            lo, hi = lohi(cs[j - 2])
            bad = bad | ((data[j - 2] == lo) & (data[j - 1] == hi))
    else:
        for s0 in range(len(data)):
            cs = crc16_from(data, s0 + 1)
            for e in range(s0 + 5, len(data)):
                lo, hi = lohi(cs[e - 2 - (s0 + 1)])
                bad = bad | ((data[s0] == 0x7B) & (data[e] == 0x7D) & (data[e - 2] == lo) & (data[e - 1] == hi))
    assume(lnot(bad))


def raised_in_decode(e):
    tb = e.__traceback__
    while tb is not None:
        if tb.tb_frame.f_code.co_name in ("processIncomingPacket", "decode_data"):
            return True              # the two framer entry points execute() hands the received bytes to
        tb = tb.tb_next
    return False


def make_fault(framing, retries, roe, roi, ncalls, gfc=3):
    def fault(ch: bytes, u: bytes, v: bytes, g: bytes) -> bool:
        import socket
        import pymodbus.factory as F
        assume(len(ch) == ncalls and len(u) == 2 and len(v) == 4 and len(g) == 6)
        unit, other = u[0], u[1]
        assume(1 <= unit <= 247)
        assume(1 <= other <= 247)
        assume(other != unit)
        for i in range(ncalls):
            assume(ch[i] < len(BEHAVIOURS))
        # the function-code position of the garbage is fixed per obligation (the decoder table is keyed by it)
        if framing == "rtu":
            assume(g[1] == gfc)
            assume(g[2] <= 4)
        elif framing == "binary":
            assume(g[2] == gfc)
        elif framing == "tcp":
            pass            # 6 garbage bytes never reach the function-code position of an MBAP frame
        else:
            hx = b"%02X" % gfc
            assume(g[3] == hx[0])
            assume(g[4] == hx[1])
        cl = make_client(framing, rx=b"", retries=retries, retry_on_empty=roe, retry_on_invalid=roi)
        tid = 1
        state = {"pending": b"", "n": 0}
        if framing in ("rtu", "binary"):
            # with the checksum uninterpreted the solver could make garbage / half a frame checksum-valid: such
            # coincidences (1 in 65536 per window for the real CRC) are outside the claim
            _not_valid(framing, g)
            full = _frames(framing, unit, other, tid, v)["full"]
            _not_valid(framing, full[:len(full) // 2])

        def recv_hook(client, size):
            # one behaviour per *transaction attempt* (first receive call after a send); later calls of the same attempt
            # continue handing out that behaviour's bytes
            if state["fresh"]:
                state["fresh"] = False
                k = ch[state["n"]] if state["n"] < ncalls else 2
                state["n"] += 1
                fr = _frames(framing, unit, other, tid, v)
                if k == 7:
                    raise socket.error("scripted OSError")
                name = BEHAVIOURS[k]
                if name in fr:
                    state["pending"] = fr[name]
                elif name == "nothing":
                    state["pending"] = b""
                elif name == "half":
                    full = fr["full"]
                    state["pending"] = full[:len(full) // 2]
                else:
                    state["pending"] = g
            buf = state["pending"]
            if size is None:
                out, state["pending"] = buf, b""
            else:
                out, state["pending"] = buf[:size], buf[size:]
            return out

        def send_hook(client, request):
            state["fresh"] = True
            state["pending"] = b""
            return len(request)

        for i in range(1, 40):
            cl.faults[("recv", i)] = recv_hook
            cl.faults[("send", i)] = send_hook
        req = F.ReadHoldingRegistersRequest(0, 1)
        req.unit_id = unit
        try:
            got = cl.execute(req)
        except Exception as e:
            # the listed finding is about exceptions raised while the received bytes are framed/decoded
            # (framer.processIncomingPacket inside execute); an exception from anywhere else is not covered by it
            known("KF-client-raises-on-garbage-reply", raised_in_decode(e))
            explain("execute raised %s: %s", type(e).__name__, e)
            return False
        if len(cl.sent) > 1 + retries:
            explain("request transmitted %d times with retries=%d", len(cl.sent), retries)
            return False
        if not (is_error_object(got) or hasattr(got, "function_code")):
            explain("returned %r", got)
            return False
        # recovery: a following transaction over a healthy transport
        cl.faults.clear()
        tid2 = (cl.transaction.tid + 1) % 65536
        cl.rx = adu.ref_adu_clean(framing, bytes([3, 2, v[2], v[3]]), unit, bytes([tid2 // 256, tid2 % 256]))
        req2 = F.ReadHoldingRegistersRequest(1, 1)
        req2.unit_id = unit
        try:
            got2 = cl.execute(req2)
        except Exception as e:
            explain("follow-up transaction raised %s", type(e).__name__)
            return False
        if not hasattr(got2, "registers") or is_error_object(got2):
            explain("follow-up transaction returned %r", got2)
            return False
        return same(list(got2.registers), [v[2] * 256 + v[3]], "follow-up reply")
    return fault


def make_retry(framing, first):
    """documented retry options: reply arriving on the second attempt after an empty / foreign-unit answer"""
    def retry(u: bytes, v: bytes) -> bool:
        import pymodbus.factory as F
        assume(len(u) == 2 and len(v) == 4)
        unit, other = u[0], u[1]
        assume(1 <= unit <= 247)
        assume(1 <= other <= 247)
        assume(other != unit)
        roe, roi = (True, False) if first == "nothing" else (False, True)
        cl = make_client(framing, rx=b"", retries=2, retry_on_empty=roe, retry_on_invalid=roi)
        fr = _frames(framing, unit, other, 1, v)
        state = {"attempt": 0, "pending": b""}

        def send_hook(client, request):
            state["attempt"] += 1
            if state["attempt"] == 1:
                state["pending"] = b"" if first == "nothing" else fr["other-unit"]
            elif state["attempt"] == 2:
                state["pending"] = fr["full"]
            else:
                state["pending"] = b""         # the device answers once; a needless further attempt meets silence
            return len(request)

        def recv_hook(client, size):
            buf = state["pending"]
            out, state["pending"] = (buf, b"") if size is None else (buf[:size], buf[size:])
            return out
        for i in range(1, 30):
            cl.faults[("recv", i)] = recv_hook
            cl.faults[("send", i)] = send_hook
        req = F.ReadHoldingRegistersRequest(0, 1)
        req.unit_id = unit
        got = cl.execute(req)
        if not hasattr(got, "registers") or is_error_object(got):
            explain("with retry_on_%s the reply of the second attempt was not returned: %r (sends: %d)",
                    "empty" if roe else "invalid", got, len(cl.sent))
            return False
        return same(list(got.registers), [v[0] * 256 + v[1]], "reply")
    return retry


def make_peerclose(framing, retries):
    """the peer closes the connection after k bytes of the reply (k symbolic, 0 = at once): reads on that connection
    return nothing from then on, and only a connection opened after the client called close() is healthy again"""
    def peerclose(u: int, v: bytes, k: int) -> bool:
        import pymodbus.factory as F
        assume(len(v) == 4)
        assume(1 <= u <= 247)
        cl = make_client(framing, rx=b"", retries=retries, retry_on_empty=False, retry_on_invalid=False)
        state = {"pending": b"", "dead_gen": -1, "txn": 1}
        first = adu.ref_adu_clean(framing, bytes([3, 2, v[0], v[1]]), u, bytes([0, 1]))
        assume(0 <= k < len(first))
        known("KF-client-keeps-dead-connection-after-truncated-reply", k >= {"tcp": 8, "rtu": 2, "ascii": 5, "binary": 3}[framing])

        def send_hook(client, request):
            if client.closed == state["dead_gen"]:
                state["pending"] = b""                 # written into a connection the peer has closed: no answer
            elif state["dead_gen"] < 0:
                state["pending"] = first[:k]           # the peer dies after k bytes of its reply
                state["dead_gen"] = client.closed
            else:
                tidb = bytes([request[0], request[1]]) if framing == "tcp" else b""
                state["pending"] = adu.ref_adu_clean(framing, bytes([3, 2, v[2], v[3]]), u, tidb)
            return len(request)

        def recv_hook(client, size):
            buf = state["pending"]
            out, state["pending"] = (buf, b"") if size is None else (buf[:size], buf[size:])
            return out
        for i in range(1, 40):
            cl.faults[("recv", i)] = recv_hook
            cl.faults[("send", i)] = send_hook
        req = F.ReadHoldingRegistersRequest(0, 1)
        req.unit_id = u
        try:
            got = cl.execute(req)
        except Exception as e:
            explain("execute raised %s: %s", type(e).__name__, e)
            return False
        if not is_error_object(got):
            explain("a reply cut after %r bytes was returned as %r", k, got)
            return False
        req2 = F.ReadHoldingRegistersRequest(1, 1)
        req2.unit_id = u
        try:
            got2 = cl.execute(req2)
        except Exception as e:
            explain("follow-up transaction raised %s", type(e).__name__)
            return False
        if not hasattr(got2, "registers") or is_error_object(got2):
            explain("after a peer close (k=%r) the follow-up transaction returned %r: closes=%d", k, got2, cl.closed)
            return False
        return same(list(got2.registers), [v[2] * 256 + v[3]], "follow-up reply")
    return peerclose


def make_realtcp(glen, eof):
    """the REAL ModbusTcpClient (connect/_send/_recv with its select/deadline loop) over a fake socket: the reply to the
    first request is ANY glen bytes, then silence (or end-of-stream); asserted as in fault.*: the call returns an
    error object or a response, never raises, and a following transaction over a healthy server returns its reply"""
    def realtcp(g: bytes, u: int, v: bytes) -> bool:
        import pymodbus.client.sync as CS
        import pymodbus.factory as F
        assume(len(g) == glen and len(v) == 2)
        assume(1 <= u <= 247)
        now = {"t": 1000}
        made = []

        def clock():
            now["t"] += 1                       # every observation of the clock advances it (timeout is 3)
            return now["t"]

        class Sock(object):
            def __init__(self, healthy):
                self.healthy = healthy
                self.pending = b""
                self.eof = False
                self.closed = False
                made.append(self)

            def setblocking(self, f):
                pass

            def settimeout(self, t):
                pass

            def send(self, data):
                if self.closed:
                    raise OSError("send on a closed socket")
                if self.healthy:
                    self.pending = self.pending + adu.ref_adu_clean("tcp", bytes([3, 2, v[0], v[1]]), u, bytes([data[0], data[1]]))
                else:
                    self.pending = g
                    self.healthy = True         # only the first reply is garbage
                    self.eof = eof
                return len(data)

            def recv(self, n):
                if n < 0:
                    raise ValueError("negative buffersize in recv")
                out, self.pending = self.pending[:n], self.pending[n:]
                return out

            def close(self):
                self.closed = True

        def fake_select(r, w, x, t=None):
            s = r[0]
            if len(s.pending) > 0 or s.eof:
                return ([s], [], [])
            return ([], [], [])
        old = (CS.time.time, CS.select.select, CS.socket.create_connection)
        cl = CS.ModbusTcpClient("h", timeout=3)
        cl.socket = Sock(False)
        CS.time.time, CS.select.select = clock, fake_select
        CS.socket.create_connection = lambda *a, **k: Sock(True)
        try:
            req = F.ReadHoldingRegistersRequest(0, 1)
            req.unit_id = u
            try:
                got = cl.execute(req)
            except Exception as e:
                known("KF-client-raises-on-garbage-reply", raised_in_decode(e))
                explain("execute raised %s: %s", type(e).__name__, e)
                return False
            if not (is_error_object(got) or hasattr(got, "function_code")):
                return False
            if len(made) == 1 and (eof or len(made[0].pending) > 0):
                # the connection was kept although it is at end-of-stream / still holds unread garbage: what the next
                # call sees there is KF-client-keeps-dead-connection... / C08's subject; recovery is judged on clean ones
                return True
            req2 = F.ReadHoldingRegistersRequest(1, 1)
            req2.unit_id = u
            try:
                got2 = cl.execute(req2)
            except Exception as e:
                explain("follow-up transaction raised %s", type(e).__name__)
                return False
            if not hasattr(got2, "registers") or is_error_object(got2):
                explain("follow-up transaction returned %r", got2)
                return False
            return same(list(got2.registers), [v[0] * 256 + v[1]], "follow-up reply")
        finally:
            CS.time.time, CS.select.select, CS.socket.create_connection = old
    return realtcp


def make_realserial(method, sizes):
    """the REAL ModbusSerialClient (its own _send with the receive-buffer clean-up, _recv, connect/close) over a fake
    serial port: N stale bytes (left by a fault: a late or foreign frame, a noise burst) are waiting when the next
    request is sent; that transaction over a healthy line must return its own reply. N is enumerated around the sizes
    of one and two maximum ADUs; unit and values are symbolic."""
    def realserial(u: int, v: bytes) -> bool:
        import pymodbus.client.sync as CS
        import pymodbus.factory as F
        assume(len(v) == 2)
        assume(1 <= u <= 247)

        class Port(object):
            def __init__(self):
                self.pending = b""
                self.is_open = True

            @property
            def in_waiting(self):
                return len(self.pending)

            def read(self, n):
                out, self.pending = self.pending[:n], self.pending[n:]
                return out

            def write(self, data):
                # the device answers the request it was sent (healthy line)
                self.pending = self.pending + adu.ref_adu_clean(method, bytes([3, 2, v[0], v[1]]), u)
                return len(data)

            def close(self):
                self.is_open = False
        for n_stale in sizes:
            cl = CS.ModbusSerialClient(method=method, port="p", timeout=1, baudrate=19200)
            port = Port()
            port.pending = bytes([0x11]) * n_stale
            cl.socket = port
            req = F.ReadHoldingRegistersRequest(0, 1)
            req.unit_id = u
            try:
                got = cl.execute(req)
            except Exception as e:
                explain("%d stale bytes: execute raised %s", n_stale, type(e).__name__)
                return False
            if not hasattr(got, "registers") or is_error_object(got):
                explain("%d stale bytes waiting before the request: the healthy transaction returned %r", n_stale, got)
                return False
            if not same(list(got.registers), [v[0] * 256 + v[1]], "reply after %d stale bytes" % n_stale):
                return False
        return True
    return realserial


def realudp_late(u: int, v: bytes) -> bool:
    """the REAL ModbusUdpClient over fake datagram sockets: the reply to call 1 arrives after its time-out (so
    recvfrom raises socket.timeout first and the datagram is queued on THAT socket afterwards); call 2, answered in
    time by a healthy server, must return its own reply (or an error object) -- never the late reply of call 1"""
    import socket as _socket
    import pymodbus.client.sync as CS
    import pymodbus.factory as F
    assume(len(v) == 4)
    assume(1 <= u <= 247)
    assume(v[0] * 256 + v[1] != v[2] * 256 + v[3])
    socks = []

    class Sock(object):
        def __init__(self, *a, **k):
            self.queue = []
            self.late = None
            self.n = 0
            socks.append(self)

        def settimeout(self, t):
            pass

        def sendto(self, data, addr):
            k = len([1 for s in socks for _ in range(s.n)])
            self.n += 1
            tidb = bytes([data[0], data[1]])
            if k == 0:
                # first request of the run: its reply will come late
                self.late = adu.ref_adu("tcp", bytes([3, 2, v[0], v[1]]), u, tidb)
            else:
                self.queue.append(adu.ref_adu("tcp", bytes([3, 2, v[2], v[3]]), u, tidb))
            return len(data)

        def recvfrom(self, size):
            if self.queue:
                return self.queue.pop(0), ("h", 502)
            if self.late is not None:
                # time-out now; the late datagram is delivered to this socket right afterwards
                self.queue.append(self.late)
                self.late = None
            raise _socket.timeout("timed out")

        def close(self):
            pass
    old = CS.socket.socket
    CS.socket.socket = Sock
    try:
        cl = CS.ModbusUdpClient("127.0.0.1", timeout=1)
        r1 = F.ReadHoldingRegistersRequest(0, 1)
        r1.unit_id = u
        try:
            first = cl.execute(r1)
        except Exception as e:
            known("KF-client-raises-on-garbage-reply", raised_in_decode(e))
            explain("call 1 raised %s", type(e).__name__)
            return False
        if not is_error_object(first):
            explain("a call whose reply did not arrive in time returned %r", first)
            return False
        r2 = F.ReadHoldingRegistersRequest(1, 1)
        r2.unit_id = u
        try:
            got = cl.execute(r2)
        except Exception as e:
            explain("call 2 raised %s", type(e).__name__)
            return False
        if is_error_object(got):
            return True
        return same(list(got.registers), [v[2] * 256 + v[3]], "reply returned by the call after the time-out")
    finally:
        CS.socket.socket = old


def deadline_tcp(steps: bytes) -> bool:
    """ModbusTcpClient._recv deadline loop with a symbolic clock and a socket that never delivers"""
    import pymodbus.client.sync as CS
    assume(len(steps) == 12)
    timeout = 4                              # integer ticks: the loop only adds, subtracts and compares instants
    now = {"t": 1000, "i": 0, "polls": 0}

    def clock():
        i = now["i"]
        now["i"] += 1
        inc = steps[i] if i < 12 else 255
        now["t"] = now["t"] + timeout // 4 + inc             # advances by at least timeout/4
        return now["t"]

    class Sock(object):
        def setblocking(self, f):
            pass

        def recv(self, n):
            return b""

    def fake_select(r, w, x, t=None):
        now["polls"] += 1
        if now["polls"] > 64:
            raise AssertionError("deadline loop polled more than 64 times")
        return ([], [], [])
    old = (CS.time.time, CS.select.select)
    cl = CS.ModbusTcpClient("h", timeout=timeout)
    cl.socket = Sock()
    CS.time.time, CS.select.select = clock, fake_select
    try:
        try:
            out = cl._recv(8)
        except AssertionError:
            explain("the deadline loop did not end")
            return False
        except Exception as e:
            explain("raised %r", e)
            return False
    finally:
        CS.time.time, CS.select.select = old
    return out == b"" and now["polls"] <= 8


def obligations(tier):
    from harness import kernels
    T = 300 if tier == "quick" else 1800
    out = [kernels.K1(tier), kernels.K2(tier)]
    contracts = {"tcp": (), "rtu": ("crc",), "binary": ("crc",), "ascii": ("lrc",)}
    lem = {"tcp": (), "rtu": ("K1",), "binary": ("K1",), "ascii": ("K2",)}
    configs = [(0, False, False), (1, True, True)] if tier == "quick" else \
        [(0, False, False), (1, False, False), (1, True, True), (2, True, True), (1, True, False), (1, False, True), (2, False, True)]
    framings = ("tcp", "rtu", "ascii") if tier == "quick" else ("tcp", "rtu", "ascii", "binary")
    for framing in framings:
        for retries, roe, roi in (configs if not (tier == "quick" and framing == "ascii") else configs[:1]):
            ncalls = 1 + retries
            for gfc in ((3, 0x83) if framing != "tcp" else (3,)):
                out.append(Obl("fault.%s.r%d.e%d.i%d.g%02x" % (framing, retries, roe, roi, gfc),
                               make_fault(framing, retries, roe, roi, ncalls, gfc), timeout=T,
                               contracts=contracts[framing], lemmas=lem[framing],
                               findings=("KF-client-raises-on-garbage-reply",) if framing in ("ascii", "binary") else (),
                               bounds="%s client, retries=%d retry_on_empty=%s retry_on_invalid=%s: per attempt a symbolic choice among %s; 6 symbolic garbage bytes (function-code position 0x%02X); units/values symbolic; then a healthy follow-up transaction" % (
                                   framing, retries, roe, roi, BEHAVIOURS, gfc)))
        for first in ("nothing", "other-unit"):
            if tier == "quick" and framing == "ascii":
                continue
            out.append(Obl("retry.%s.after-%s" % (framing, first), make_retry(framing, first), timeout=T, contracts=contracts[framing], lemmas=lem[framing],
                           bounds="%s client, retries=2 with the matching retry option: first attempt answered by %s, second by the right reply" % (framing, first)))
    if tier == "quick":
        # (the binary framing is otherwise a thorough-tier framing here: its retry_on_invalid path has its own decode_data)
        out.append(Obl("retry.binary.after-other-unit", make_retry("binary", "other-unit"), timeout=T, contracts=contracts["binary"], lemmas=lem["binary"],
                       bounds="binary client, retries=2 with retry_on_invalid: first attempt answered by another unit's frame, second by the right reply; units 1..247 symbolic"))
    for framing in (("tcp",) if tier == "quick" else ("tcp", "rtu")):
        for retries in ((0,) if tier == "quick" else (0, 1)):
            out.append(Obl("peerclose.%s.r%d" % (framing, retries), make_peerclose(framing, retries), timeout=T,
                           contracts=contracts[framing], lemmas=lem[framing],
                           findings=("KF-client-keeps-dead-connection-after-truncated-reply",),
                           bounds="%s client over a connection-oriented transport, retries=%d: the peer closes after k bytes of the reply (k symbolic, 0..len-1); reads on that connection then return nothing; a connection opened after client.close() is healthy; follow-up transaction must return its reply" % (framing, retries)))
    for glen, eof in (((8, False), (9, True)) if tier == "quick" else ((8, False), (8, True), (9, False), (9, True), (12, False), (7, True))):
        out.append(Obl("realtcp.g%d.%s" % (glen, "eof" if eof else "silence"), make_realtcp(glen, eof), timeout=T,
                       bounds="real ModbusTcpClient (connect, _send, _recv with its select/deadline loop, clock stub advancing 1 s per observation) over a fake socket: the first reply is ANY %d bytes followed by %s; then a healthy server" % (glen, "end-of-stream" if eof else "silence")))
    for method in (("rtu", "ascii") if tier == "quick" else ("rtu", "ascii", "binary")):
        sizes = (257,) if (tier == "quick" and method == "rtu") else (0, 1, 255, 256, 257, 513, 600)
        out.append(Obl("realserial.%s" % method, make_realserial(method, sizes), timeout=T, contracts=contracts[method], lemmas=lem[method],
                       bounds="real ModbusSerialClient(%s) over a fake serial port: %s stale bytes waiting when the request is sent, healthy device afterwards; unit and register value symbolic" % (method, "/".join(map(str, sizes)))))
    out.append(Obl("realudp.late-reply", realudp_late, timeout=T,
                   bounds="real ModbusUdpClient over fake datagram sockets: call 1 times out, its reply is delivered to that socket afterwards; call 2 is answered in time; unit and both register values symbolic"))
    out.append(Obl("deadline.tcp", deadline_tcp, timeout=T,
                   bounds="ModbusTcpClient._recv(8), timeout 4 s, silent socket, clock advancing by timeout/4 + a symbolic extra (12 symbolic steps)"))
    return out
