"""C18 -- datastore blocks and contexts address exactly their cells.

One inductive step per operation from an arbitrary valid pre-state (see DESIGN 3/4): the block's
start address, length (<= MAXLEN) and contents are symbolic; the reference model is a plain
address -> value map written here from the property statement.
"""
from typing import Dict, List

from engine.hlib import assume, same, explain, known
from engine.obl import Obl

LEVEL = "model_checking"
EXPLANATION = ("Bounded symbolic model checking of one operation from an arbitrary block state: "
               "ModbusSequentialDataBlock / ModbusSparseDataBlock validate/getValues/setValues/reset, "
               "ModbusSlaveContext offset and fc->table map, ModbusServerContext routing. Histories of any "
               "length follow by induction on the step (argument on paper, DESIGN 4/C18).")
ASSUMPTIONS = ["register values are Python ints (the blocks store whatever they are given)",
               "sequential block length 1..6 cells, start 0..70000; sparse blocks over subsets of an 8-address window"]

MAXLEN = 6


def _seq(start, vals):
    from pymodbus.datastore.store import ModbusSequentialDataBlock
    blk = ModbusSequentialDataBlock(start, [0])
    blk.values = vals            # state built directly (constructor calls values[0].__class__())
    return blk


def seq_validate(start: int, vals: List[int], address: int, count: int) -> bool:
    assume(0 <= start <= 70000)
    assume(1 <= len(vals) <= MAXLEN)
    assume(count >= 1)
    blk = _seq(start, vals)
    got = blk.validate(address, count)
    exp = (start <= address) and (address + count <= start + len(vals))
    return same(bool(got), exp, "validate")


def seq_get(start: int, vals: List[int], address: int, count: int) -> bool:
    assume(0 <= start <= 70000)
    assume(1 <= len(vals) <= MAXLEN)
    assume(1 <= count <= MAXLEN)
    assume(start <= address)
    assume(address + count <= start + len(vals))
    blk = _seq(start, vals)
    before = list(vals)
    got = blk.getValues(address, count)
    if len(got) != count:
        explain("getValues returned %r values for count %r", len(got), count)
        return False
    for i in range(count):
        if got[i] != before[address - start + i]:
            explain("value %d differs", i)
            return False
    # a read changes nothing
    return same(list(blk.values), before, "values after read") and blk.address == start


def seq_set(start: int, vals: List[int], address: int, new: List[int]) -> bool:
    assume(0 <= start <= 70000)
    assume(1 <= len(vals) <= MAXLEN)
    assume(1 <= len(new) <= 4)
    assume(start <= address)
    assume(address + len(new) <= start + len(vals))
    blk = _seq(start, vals)
    before = list(vals)
    n = len(before)
    blk.setValues(address, list(new))
    after = list(blk.values)
    if len(after) != n or blk.address != start:
        explain("extent changed: %r cells at %r -> %r cells at %r", n, start, len(after), blk.address)
        return False
    off = address - start
    for i in range(n):
        exp = new[i - off] if off <= i < off + len(new) else before[i]
        if after[i] != exp:
            explain("cell %d: got %r expected %r", start + i, after[i], exp)
            return False
    # visible to a subsequent read
    return same(blk.getValues(address, len(new)), list(new), "read-back")


def seq_set_scalar(start: int, vals: List[int], address: int, v: int) -> bool:
    """setValues accepts a bare value as a one-element write."""
    assume(0 <= start <= 70000)
    assume(1 <= len(vals) <= MAXLEN)
    assume(start <= address < start + len(vals))
    blk = _seq(start, vals)
    before = list(vals)
    blk.setValues(address, v)
    after = list(blk.values)
    if len(after) != len(before):
        return False
    for i in range(len(before)):
        if after[i] != (v if i == address - start else before[i]):
            return False
    return True


def seq_reset(start: int, vals: List[int], default: int) -> bool:
    assume(0 <= start <= 70000)
    assume(1 <= len(vals) <= MAXLEN)
    blk = _seq(start, vals)
    blk.default_value = default
    n = len(vals)
    blk.reset()
    after = list(blk.values)
    if len(after) != n or blk.address != start:
        return False
    for i in range(n):
        if after[i] != default:
            return False
    return True


def make_seq_iter(start):
    def seq_iter(vals: List[int]) -> bool:
        # enumerate() is a C builtin that needs a concrete start, so the start address is enumerated, not symbolic
        assume(1 <= len(vals) <= 4)
        blk = _seq(start, vals)
        items = list(iter(blk))
        if len(items) != len(vals):
            return False
        for i in range(len(vals)):
            if items[i][0] != start + i or items[i][1] != vals[i]:
                return False
        return True
    return seq_iter


# ---------------------------------------------------------------- sparse block
# The sparse block is a dict keyed by address: hashing makes CrossHair concretise addresses, so the window
# base, the probed address and the count are enumerated concretely inside the harness and the *key set*
# (any subset of the window) and all stored/written values are the symbolic part.
WIN = 4


def _sparse(base, mask, vals, rev=False):
    """sparse block built by the real constructor from a dict whose keys are supplied in ascending (rev False) or
    descending (rev True) order; the symbolic values are then stored through setValues (the constructor calls
    value.__class__(), which needs real ints)"""
    from pymodbus.datastore.store import ModbusSparseDataBlock
    d, d0 = {}, {}
    for i in range(WIN):
        if mask[i]:
            d[base + i] = vals[i]
    assume(len(d) >= 1)
    for i in (range(WIN - 1, -1, -1) if rev else range(WIN)):
        if mask[i]:
            d0[base + i] = 0
    blk = ModbusSparseDataBlock(d0)
    blk.setValues(0, dict(d))
    return blk, d


def make_sparse_validate(base):
    def sparse_validate(m0: bool, m1: bool, m2: bool, m3: bool, v0: int, v1: int, v2: int, v3: int, rev: bool) -> bool:
        mask = [m0, m1, m2, m3]
        blk, d = _sparse(base, mask, [v0, v1, v2, v3], rev)
        for address in range(max(0, base - 1), base + WIN + 1):
            for count in range(1, WIN + 2):
                got = blk.validate(address, count)
                exp = True
                for a in range(address, address + count):
                    if not (base <= a < base + WIN and mask[a - base]):
                        exp = False
                if bool(got) != exp:
                    explain("sparse validate(%r, %r) = %r on keys %r", address, count, got, sorted(d))
                    return False
        return True
    return sparse_validate


def make_sparse_rw(base):
    def sparse_rw(m0: bool, m1: bool, m2: bool, m3: bool, v0: int, v1: int, v2: int, v3: int,
                  n0: int, n1: int, n2: int, rev: bool) -> bool:
        mask = [m0, m1, m2, m3]
        vals = [v0, v1, v2, v3]
        new_all = [n0, n1, n2]
        for off in range(WIN):
            for n in range(1, 4):
                if off + n > WIN:
                    continue
                populated = True
                for k in range(n):
                    if not mask[off + k]:
                        populated = False
                if not populated:
                    continue
                blk, d = _sparse(base, mask, vals, rev)
                before = dict(d)
                address = base + off
                new = new_all[:n]
                got = blk.getValues(address, n)
                if len(got) != n:
                    return False
                for k in range(n):
                    if got[k] != before[address + k]:
                        return False
                blk.setValues(address, list(new))
                after = dict(blk.values)
                if sorted(after.keys()) != sorted(before.keys()):
                    explain("key set changed")
                    return False
                for a in before:
                    exp = new[a - address] if address <= a < address + n else before[a]
                    if after[a] != exp:
                        explain("cell %r: got %r expected %r", a, after[a], exp)
                        return False
                if blk.getValues(address, n) != list(new):
                    return False
        return True
    return sparse_rw


# ---------------------------------------------------------------- slave context
FC_TABLE = {1: 'c', 5: 'c', 15: 'c', 2: 'd', 4: 'i', 3: 'h', 6: 'h', 16: 'h', 22: 'h', 23: 'h'}


def make_slave(fc, zero_mode):
    def slave_ctx(start: int, vals: List[int], address: int, count: int, new: List[int]) -> bool:
        from pymodbus.datastore import ModbusSlaveContext
        assume(0 <= start <= 70000)
        assume(1 <= len(vals) <= 4)
        assume(1 <= count <= 4)
        assume(0 <= address <= 65535)
        blocks = {}
        snap = {}
        for t in 'dcih':
            # the addressed table is symbolic, the three others are fixed decoys that must not be touched
            if t == FC_TABLE[fc]:
                blocks[t] = _seq(start, vals)
            else:
                blocks[t] = _seq(0, [7, 7, 7])
            snap[t] = list(blocks[t].values)
        ctx = ModbusSlaveContext(di=blocks['d'], co=blocks['c'], ir=blocks['i'], hr=blocks['h'], zero_mode=zero_mode)
        eff = address if zero_mode else address + 1
        exp_ok = (start <= eff) and (eff + count <= start + len(vals))
        if bool(ctx.validate(fc, address, count)) != exp_ok:
            explain("validate(fc=%r, %r, %r) != %r", fc, address, count, exp_ok)
            return False
        if not exp_ok:
            return True
        got = ctx.getValues(fc, address, count)
        if len(got) != count:
            return False
        for i in range(count):
            if got[i] != snap[FC_TABLE[fc]][eff - start + i]:
                return False
        assume(len(new) == count)
        ctx.setValues(fc, address, list(new))
        for t in 'dcih':
            after = list(blocks[t].values)
            if t != FC_TABLE[fc]:
                if after != snap[t]:
                    explain("table %s changed by fc %r", t, fc)
                    return False
            else:
                if len(after) != len(snap[t]):
                    return False
                for i in range(len(after)):
                    exp = new[i - (eff - start)] if eff - start <= i < eff - start + count else snap[t][i]
                    if after[i] != exp:
                        return False
        return True
    return slave_ctx


# ---------------------------------------------------------------- server context
def server_single(unit: int, other: int) -> bool:
    from pymodbus.datastore import ModbusServerContext
    assume(0 <= unit <= 255)
    assume(0 <= other <= 255)
    marker = object()
    ctx = ModbusServerContext(slaves=marker, single=True)
    if ctx[unit] is not marker:
        return False
    if unit not in ctx:
        return False
    m2 = object()
    ctx[other] = m2             # in single mode any id (re)places the only context
    return ctx[unit] is m2


def server_multi(slaves: Dict[int, int], unit: int) -> bool:
    from pymodbus.datastore import ModbusServerContext
    from pymodbus.exceptions import NoSuchSlaveException
    assume(len(slaves) <= 3)
    for k in slaves:
        assume(0 <= k <= 247)
    assume(0 <= unit <= 255)
    ctx = ModbusServerContext(slaves={}, single=False)
    ctx._slaves = slaves
    hosted = unit in slaves
    if (unit in ctx) != hosted:
        explain("membership of %r", unit)
        return False
    try:
        got = ctx[unit]
        if not hosted or got != slaves[unit]:
            explain("ctx[%r] returned %r", unit, got)
            return False
    except NoSuchSlaveException:
        if hosted:
            explain("hosted unit %r raised NoSuchSlave", unit)
            return False
    return True


def server_set(slaves: Dict[int, int], unit: int, val: int, probe: int) -> bool:
    from pymodbus.datastore import ModbusServerContext
    from pymodbus.exceptions import NoSuchSlaveException
    assume(len(slaves) <= 2)
    for k in slaves:
        assume(0 <= k <= 247)
    assume(-3 <= unit <= 300)
    assume(0 <= probe <= 255)
    before = dict(slaves)
    ctx = ModbusServerContext(slaves={}, single=False)
    ctx._slaves = slaves
    try:
        ctx[unit] = val
        accepted = True
    except NoSuchSlaveException:
        accepted = False
    if accepted != (0 <= unit <= 247):
        explain("registration of id %r accepted=%r", unit, accepted)
        return False
    # routing after the operation: exactly the registered ids
    exp_has = (probe in before) or (accepted and probe == unit)
    if (probe in ctx) != exp_has:
        return False
    if exp_has:
        exp_val = val if (accepted and probe == unit) else before[probe]
        return ctx[probe] == exp_val
    try:
        ctx[probe]
        return False
    except NoSuchSlaveException:
        return True


def server_seq(ops: bytes) -> bool:
    """histories through the public API only (no state is planted): three operations, each a symbolic choice among
    lookup / register / delete / membership with a symbolic unit id, against a dictionary reference model; then every
    id is probed. (The single-step obligations start from a planted `_slaves` map and cannot see state kept elsewhere.)"""
    from pymodbus.datastore import ModbusServerContext
    from pymodbus.exceptions import NoSuchSlaveException
    assume(len(ops) == 9)
    ctx = ModbusServerContext(slaves={1: 101}, single=False)
    model = {1: 101}
    for i in range(3):
        kind, unit, val = ops[3 * i], ops[3 * i + 1], ops[3 * i + 2]
        assume(kind <= 3)
        assume(1 <= unit <= 2)
        if kind == 0 or kind == 3:
            if (unit in ctx) != (unit in model):
                explain("step %d: membership of %r", i, unit)
                return False
            try:
                got = ctx[unit]
                if unit not in model or got != model[unit]:
                    explain("step %d: ctx[%r] returned %r, registered: %r", i, unit, got, sorted(model))
                    return False
            except NoSuchSlaveException:
                if unit in model:
                    explain("step %d: registered unit %r raised NoSuchSlave", i, unit)
                    return False
        elif kind == 1:
            ctx[unit] = val
            model[unit] = val
        else:
            if unit in model:
                del ctx[unit]
                del model[unit]
    for unit in (1, 2, 3):
        if (unit in ctx) != (unit in model):
            explain("final membership of %r", unit)
            return False
        try:
            got = ctx[unit]
            if unit not in model or got != model[unit]:
                explain("final ctx[%r] returned %r, registered: %r", unit, got, sorted(model))
                return False
        except NoSuchSlaveException:
            if unit in model:
                return False
    return sorted(ctx.slaves()) == sorted(model)


def server_del(slaves: Dict[int, int], unit: int, probe: int) -> bool:
    from pymodbus.datastore import ModbusServerContext
    from pymodbus.exceptions import NoSuchSlaveException
    assume(1 <= len(slaves) <= 2)
    for k in slaves:
        assume(0 <= k <= 247)
    assume(unit in slaves)
    assume(0 <= probe <= 255)
    before = dict(slaves)
    ctx = ModbusServerContext(slaves={}, single=False)
    ctx._slaves = slaves
    del ctx[unit]
    exp_has = (probe in before) and probe != unit
    if (probe in ctx) != exp_has:
        return False
    if exp_has:
        return ctx[probe] == before[probe]
    try:
        ctx[probe]
        return False
    except NoSuchSlaveException:
        return True


def seq_construct(start: int, n: int) -> bool:
    """the public constructor (not the state-built-directly shortcut): extent and contents as given"""
    from pymodbus.datastore.store import ModbusSequentialDataBlock
    assume(0 <= start <= 70000)
    assume(1 <= n <= 4)
    vals = [3, 1, 4, 1][:n]             # (the constructor calls values[0].__class__(), which needs real ints)
    blk = ModbusSequentialDataBlock(start, vals)
    if blk.address != start or list(blk.values) != vals:
        return False
    if blk.default_value != 0:
        return False
    single = ModbusSequentialDataBlock(start, 5)
    return single.address == start and list(single.values) == [5] and bool(single.validate(start, 1)) and not bool(single.validate(start, 2))


def sparse_construct(m0: bool, m1: bool, m2: bool, v0: int, v1: int, v2: int) -> bool:
    """ModbusSparseDataBlock from a dict keeps exactly the given keys; from a list it enumerates from address 0"""
    from pymodbus.datastore.store import ModbusSparseDataBlock
    d = {}
    for k, (m, v) in enumerate(((m0, v0), (m1, v1), (m2, v2))):
        if m:
            d[10 + 3 * k] = int(v)
    assume(len(d) >= 1)
    blk = ModbusSparseDataBlock(dict.fromkeys(d, 7))      # (the constructor calls value.__class__(), which needs real ints)
    if dict(blk.values) != dict.fromkeys(d, 7) or blk.default_value != 0:
        return False
    blk.setValues(0, dict(d))
    if dict(blk.values) != d:
        return False
    for a in (9, 10, 11, 12, 13, 14, 15, 16, 17):
        if bool(blk.validate(a, 1)) != (a in d):
            explain("validate(%r) on keys %r", a, sorted(d))
            return False
    lst = ModbusSparseDataBlock([3, 1, 4])
    if dict(lst.values) != {0: 3, 1: 1, 2: 4}:
        return False
    blk.reset()
    if not isinstance(blk.values, dict) or sorted(blk.values.keys()) != sorted(d.keys()):
        explain("reset changed the key set / turned the address map into %s", type(blk.values).__name__)
        return False
    return all(x == blk.default_value for x in blk.values.values())


def slave_reset(v: List[int]) -> bool:
    """ModbusSlaveContext.reset() restores every table to its default value and keeps every extent"""
    from pymodbus.datastore import ModbusSlaveContext
    assume(len(v) == 4)
    blocks = {k: _seq(3, [int(x) + i for x in v]) for i, k in enumerate("dcih")}
    for b in blocks.values():
        b.default_value = 0
    ctx = ModbusSlaveContext(di=blocks["d"], co=blocks["c"], ir=blocks["i"], hr=blocks["h"])
    ctx.reset()
    for k in "dcih":
        if blocks[k].address != 3 or list(blocks[k].values) != [0, 0, 0, 0]:
            return False
    return True


def obligations(tier):
    T = 60 if tier == "quick" else 300
    seqb = "start 0..70000, block length 1..%d, contents/address/count arbitrary ints" % MAXLEN
    obl = [
        Obl("seq.validate", seq_validate, bounds=seqb + ", count >= 1 unbounded", timeout=T),
        Obl("seq.get", seq_get, bounds=seqb + ", count 1..%d" % MAXLEN, timeout=T),
        Obl("seq.set", seq_set, bounds=seqb + ", 1..4 values written", timeout=T),
        Obl("seq.set_scalar", seq_set_scalar, bounds=seqb, timeout=T),
        Obl("seq.reset", seq_reset, bounds=seqb, timeout=T),
    ]
    for st in (0, 1, 40001):
        obl.append(Obl("seq.iter@%d" % st, make_seq_iter(st), bounds="start %d (concrete), length 1..4, contents arbitrary" % st, timeout=T))
    bases = [0, 65530] if tier == "quick" else [0, 1, 1000, 65530]
    for b in bases:
        obl.append(Obl("sparse.validate@%d" % b, make_sparse_validate(b),
                       bounds="keys = any non-empty subset of [%d,%d) (symbolic), values arbitrary ints; every address within 1 of the window x count 1..%d (concrete sweep)" % (b, b + WIN, WIN + 1), timeout=T))
        obl.append(Obl("sparse.read_write@%d" % b, make_sparse_rw(b),
                       bounds="keys = any subset of [%d,%d) (symbolic); every populated range of 1..3 cells read then written with arbitrary ints" % (b, b + WIN), timeout=T))
    for fc in sorted(FC_TABLE):
        for zm in (False, True):
            if tier == "quick" and zm and fc not in (1, 3):
                continue
            obl.append(Obl("slave.fc%d.zero_mode=%s" % (fc, zm), make_slave(fc, zm),
                           bounds="addressed table: start 0..70000, length 1..4, address 0..65535, count 1..4; other three tables fixed decoys",
                           timeout=T))
    obl += [
        Obl("seq.construct", seq_construct, bounds="public constructor: start 0..70000 symbolic, 1..4 (fixed) values; scalar form", timeout=T),
        Obl("sparse.construct", sparse_construct, bounds="sparse block from a dict over any non-empty subset of {10, 13, 16} and from a list; reset keeps the key set", timeout=T),
        Obl("slave.reset", slave_reset, bounds="four 4-cell tables with symbolic contents", timeout=T),
        Obl("server.single", server_single, bounds="unit ids 0..255", timeout=T),
        Obl("server.multi.get", server_multi, bounds="<= 3 hosted ids in 0..247 (symbolic dict), probed id 0..255", timeout=T),
        Obl("server.multi.set", server_set, bounds="<= 2 hosted ids, registered id -3..300, probe 0..255", timeout=T),
        Obl("server.multi.del", server_del, bounds="1..2 hosted ids, delete a hosted id, probe 0..255", timeout=T),
        Obl("server.multi.history", server_seq, bounds="multi-unit context built and changed through its public API only: every sequence of 3 operations from {lookup, register, delete, membership} on ids {1, 2} with symbolic values, then all ids probed, against a dictionary model", timeout=T),
    ]
    return obl
