"""C14 -- predicted reply length equals the length the server really sends.

K4.<Class>            get_response_pdu_size() of every request class == closed form, over unbounded integers
                      (AST -> z3 Int translation of the method's source)
exact.<framing>.<req> the real client transaction (transaction manager execute/_transact/_recv, framer, decoder)
                      run against a scripted transport that holds exactly the frame a conformant server sends
                      (real execute() on a datastore + server-side buildPacket) followed by two sentinel bytes:
                      the call returns the decoded reply and leaves exactly the sentinel unread -- for the normal
                      and the exception reply (address symbolic: both outcomes occur), per quantity in a sweep.
"""
import z3

from engine import pysym
from engine.hlib import lohi, assume, same, explain, known, in_witness, crc16
from engine.obl import Obl
from engine.pysym import Obj, Prover, Unsupported
from harness.clientlib import make_client

LEVEL = "model_checking"
EXPLANATION = ("Size formulas proved over unbounded integers by direct AST->z3 translation; the client's read sizes "
               "(base_adu_size, min_size table, exception length, ASCII doubling) checked by symbolically executing a whole "
               "client transaction against the exact frame the real server code produces.")
ASSUMPTIONS = ["quick tier: small quantities only (all quantities are covered by the K4 closed forms); thorough adds the byte-boundary quantities and the spec maxima",
               "the server side is pymodbus' own execute() + buildPacket() (its conformance is C01/C03/C04's subject)",
               "quantities are swept concretely (the length of the reply list must be concrete for the engine); addresses, unit ids and values are symbolic",
               "binary framing: frames containing '{' / '}' bytes are the listed known finding of C03 and are assumed away here"]

SENTINEL = b"\xee\xee"


# ------------------------------------------------------------------------------------------------- K4
def _k4(cls_name, field_env, closed_form, what):
    def run():
        import pymodbus.factory as F
        cls = getattr(F, cls_name)
        p = Prover()
        try:
            names = sorted(field_env)
            vs = {n: z3.Int(n) for n in names}
            obj = Obj(**{n: (vs[n] if field_env[n] is None else field_env[n]) for n in names})
            res, it = pysym.run_function(cls.get_response_pdu_size, [obj], "int")
            claim = (res if pysym.is_z(res) else z3.IntVal(res)) == closed_form(vs)
            st, m = p.valid(claim, [vs[n] >= 0 for n in names if field_env[n] is None], what)
        except Unsupported as e:
            return {"status": "UNKNOWN", "queries": p.queries, "solver_secs": p.secs, "detail": "unsupported construct: %s" % e, "cex": None}
        cex = None
        if st == "refuted":
            cex = {"cls": cls_name, "fields": {n: m.eval(vs[n], model_completion=True).as_long() for n in names if field_env[n] is None}}
        return {"status": {"proved": "CONFIRMED", "refuted": "REFUTED"}.get(st, "UNKNOWN"), "queries": p.queries,
                "solver_secs": round(p.secs, 3), "detail": what, "cex": cex}
    return run


def _k4_replay(expected):
    def replay(cex):
        import pymodbus.factory as F
        cls = getattr(F, cex["cls"])
        o = cls.__new__(cls)
        for k, v in cex["fields"].items():
            setattr(o, k, v)
        got = o.get_response_pdu_size()
        exp = expected(cex["fields"])
        return {"fails": got != exp, "observed": "%s%r.get_response_pdu_size() = %r, closed form %r" % (cex["cls"], cex["fields"], got, exp)}
    return replay


def k4_obligations():
    out = []
    def add(cls, env, zform, pyform, what):
        out.append(Obl("K4." + cls, kind="smt", run=_k4(cls, env, zform, what), replay=_k4_replay(pyform), timeout=60,
                       bounds="all non-negative integer field values (unbounded z3 Int)",
                       functions=["pymodbus/*_message.py:%s.get_response_pdu_size" % cls]))
    for c in ("ReadCoilsRequest", "ReadDiscreteInputsRequest"):
        add(c, {"count": None}, lambda v: 2 + (v["count"] + 7) / 8, lambda f: 2 + (f["count"] + 7) // 8,
            "1 (fc) + 1 (byte count) + ceil(count/8)")
    for c in ("ReadHoldingRegistersRequest", "ReadInputRegistersRequest"):
        add(c, {"count": None}, lambda v: 2 + 2 * v["count"], lambda f: 2 + 2 * f["count"], "1 + 1 + 2*count")
    add("ReadWriteMultipleRegistersRequest", {"read_count": None}, lambda v: 2 + 2 * v["read_count"],
        lambda f: 2 + 2 * f["read_count"], "1 + 1 + 2*read_count")
    for c in ("WriteSingleCoilRequest", "WriteSingleRegisterRequest", "WriteMultipleCoilsRequest", "WriteMultipleRegistersRequest"):
        add(c, {}, lambda v: z3.IntVal(5), lambda f: 5, "1 + 2 + 2")
    return out


# ------------------------------------------------------------------------------------------------- exact reads
def _requests():
    """name -> (builder(addr, qty, val) -> request, quantity sweep (quick), quantity sweep (thorough), contracts)"""
    import pymodbus.factory as F
    R = {}
    bitsq, bitst = [1, 8, 9], [1, 2, 7, 8, 9, 15, 16, 17, 1999, 2000]
    regq, regt = [1, 2], [1, 2, 3, 124, 125]
    R["ReadCoils"] = (lambda a, q, v: F.ReadCoilsRequest(a, q), bitsq, bitst)
    R["ReadDiscreteInputs"] = (lambda a, q, v: F.ReadDiscreteInputsRequest(a, q), bitsq, bitst)
    R["ReadHoldingRegisters"] = (lambda a, q, v: F.ReadHoldingRegistersRequest(a, q), regq, regt)
    R["ReadInputRegisters"] = (lambda a, q, v: F.ReadInputRegistersRequest(a, q), regq, regt)
    R["WriteSingleCoil"] = (lambda a, q, v: F.WriteSingleCoilRequest(a, v % 2 == 1), [1], [1])
    R["WriteSingleRegister"] = (lambda a, q, v: F.WriteSingleRegisterRequest(a, v), [1], [1])
    R["WriteMultipleCoils"] = (lambda a, q, v: F.WriteMultipleCoilsRequest(a, [v % 2 == 1] * q), [1, 9], [1, 7, 8, 9, 16, 17, 1968])
    R["WriteMultipleRegisters"] = (lambda a, q, v: F.WriteMultipleRegistersRequest(a, [v] * q), [1, 2], [1, 2, 3, 123])
    R["ReadWriteMultipleRegisters"] = (lambda a, q, v: F.ReadWriteMultipleRegistersRequest(
        read_address=a, read_count=q, write_address=a, write_registers=[v]), regq, regt)
    R["ReturnQueryData"] = (lambda a, q, v: F.ReturnQueryDataRequest(v), [1], [1])
    # loopback of q data words (the reply echoes all of them)
    R["ReturnQueryDataWords"] = (lambda a, q, v: F.ReturnQueryDataRequest([v] * q), [2], [2, 3, 8, 60])
    R["RestartCommunicationsOption"] = (lambda a, q, v: F.RestartCommunicationsOptionRequest(v % 2 == 1), [1], [1])
    for nm in ("ReturnDiagnosticRegister", "ChangeAsciiInputDelimiter", "ClearCounters", "ReturnBusMessageCount",
               "ReturnBusCommunicationErrorCount", "ReturnBusExceptionErrorCount", "ReturnSlaveMessageCount",
               "ReturnSlaveNoResponseCount", "ReturnSlaveNAKCount", "ReturnSlaveBusyCount",
               "ReturnSlaveBusCharacterOverrunCount", "ReturnIopOverrunCount", "ClearOverrunCount"):
        R[nm] = ((lambda n: (lambda a, q, v: getattr(F, n + "Request")(0)))(nm), [1], [1])
    return R


DIAG_QUICK = ("ReturnQueryData", "ReturnQueryDataWords", "ReturnBusMessageCount", "ClearCounters")


def make_exact(framing, rname, qtys):
    def exact(a: bytes, in_range: bool) -> bool:
        from pymodbus.datastore import ModbusSlaveContext
        from pymodbus.pdu import ExceptionResponse
        from spec.adu import framer_class
        from pymodbus.factory import ServerDecoder
        assume(len(a) == 3)
        # the address only decides between the normal and the exception reply: one in-range and one out-of-range
        # address (a symbolic address into the concrete tables would merely be enumerated by the engine)
        addr = 5 if in_range else 65535
        val, unit = a[0] * 256 + a[1], a[2]
        assume(1 <= unit <= 247)
        build = _requests()[rname][0]
        from harness.c04 import _block
        # tables larger than every quantity limit, smaller than the address space: both outcomes (normal reply,
        # address exception) occur for the symbolic address
        ctx = ModbusSlaveContext(di=_block(0, [False] * 2200), co=_block(0, [False] * 2200),
                                 hr=_block(0, [0] * 2200), ir=_block(0, [0] * 2200))
        for q in qtys:
            req = build(addr, q, val)
            req.unit_id = unit
            resp = req.execute(ctx)                       # what a conformant server answers (normal or exception)
            if framing == "tls":
                known("KF-tls-exception-reply-length", resp.function_code >= 0x80)
            resp.unit_id = unit
            resp.transaction_id = 1                       # the client's first transaction id
            frame = framer_class(framing)(ServerDecoder()).buildPacket(resp)
            if framing == "binary":
                own = bytes([resp.function_code]) + resp.encode()
                c = crc16(bytes([unit]) + own)
                hit = (unit == 0x7B) | (unit == 0x7D) | (lohi(c)[0] == 0x7B) | (lohi(c)[0] == 0x7D) | (lohi(c)[1] == 0x7B) | (lohi(c)[1] == 0x7D)
                for i in range(len(own)):
                    hit = hit | (own[i] == 0x7B) | (own[i] == 0x7D)
                assume(not hit)                          # C03's known finding KF-binary-delimiters
            cl = make_client(framing, rx=frame + SENTINEL)
            req2 = build(addr, q, val)
            req2.unit_id = unit
            got = cl.execute(req2)
            if not hasattr(got, "function_code") or isinstance(got, Exception):
                explain("qty %r: client returned %r", q, got)
                return False
            if got.function_code != resp.function_code:
                explain("qty %r: reply fc %r, server sent %r", q, got.function_code, resp.function_code)
                return False
            if not same(cl.rx, SENTINEL, "unread bytes after the transaction"):
                explain("at quantity %r", q)
                return False
        return True
    return exact


def obligations(tier):
    from harness import kernels
    T = 180 if tier == "quick" else 1800
    out = k4_obligations()
    out += [kernels.K1(tier), kernels.K2(tier), kernels.K3(tier)]
    R = _requests()
    for framing in ("rtu", "ascii", "binary", "tls", "tcp"):
        contracts = {"rtu": ("crc",), "binary": ("crc",), "ascii": ("lrc",)}.get(framing, ())
        lem = {"rtu": ("K1",), "binary": ("K1",), "ascii": ("K2",)}.get(framing, ())
        for rname, (build, qq, qt) in sorted(R.items()):
            if tier == "quick" and rname.startswith(("Return", "Clear", "Change", "Restart")) and rname not in DIAG_QUICK:
                continue
            qs = qq if tier == "quick" else qt
            if rname == "ReturnQueryDataWords" and framing == "rtu":
                continue        # multi-word diagnostic replies are never delivered by the RTU framer (C03's listed finding KF-rtu-diag-response-length)
            if tier == "quick" and framing == "ascii" and rname in ("ReadHoldingRegisters", "ReadCoils"):
                qs = qs + [qt[-1]]          # ASCII doubles the predicted size: keep the spec maximum in the quick tier
            # one obligation per quantity for the small sweeps (parallel workers); the full thorough sweeps in chunks
            chunks = [[q] for q in qs] if len(qs) <= 12 else [qs[i:i + 25] for i in range(0, len(qs), 25)]
            for ci, chunk in enumerate(chunks):
                name = "exact.%s.%s%s" % (framing, rname, "" if len(chunks) == 1 else (".q%d" % chunk[0] if len(chunk) == 1 else ".q%d-%d" % (chunk[0], chunk[-1])))
                cs = contracts + (("bits",) if "Coils" in rname or "Discrete" in rname else ())
                out.append(Obl(name, make_exact(framing, rname, chunk), timeout=T, contracts=cs,
                               findings=("KF-tls-exception-reply-length",) if framing == "tls" and rname in ("WriteSingleRegister", "ReadCoils") else (),
                               lemmas=lem + (("K3",) if "bits" in cs else ()),
                               bounds="%s framing, %s, quantities %s (concrete sweep); one in-range and one out-of-range address (normal and exception reply), value 0..65535 and unit 1..247 symbolic" % (
                                   framing, rname, chunk if len(chunk) <= 10 else "%d..%d" % (chunk[0], chunk[-1]))))
    return out
