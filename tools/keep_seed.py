"""usage: keep_seed.py <seed-id> <PROP> <worktree> <detected_by text> : archive a confirmed seeded change under /verif/seeded/<seed-id>/"""
import json, os, shutil, sys
sid, prop, wt, detected = sys.argv[1:5]
d = os.path.join('/verif/seeded', sid)
os.makedirs(d, exist_ok=True)
shutil.copy(os.path.join(wt, 'patch.diff'), os.path.join(d, 'patch.diff'))
shutil.copy(os.path.join(wt, 'demo.py'), os.path.join(d, 'demo.py'))
meta_txt = open(os.path.join(wt, 'meta.txt')).read() if os.path.exists(os.path.join(wt, 'meta.txt')) else ''
meta = {
  "seed": sid, "breaks_property": prop,
  "needs_to_manifest": meta_txt[:2500],
  "confirmed_by_me": "in the scratch worktree: demo.py exit 0 on the unmodified tree, non-zero with patch.diff applied; "
                     "pytest with the change: 15 failed, 354 passed, 4 errors (same as baseline); "
                     "then `git -C /repo apply patch.diff`, `./check %s quick`, `git -C /repo checkout -- .`" % prop,
  "detected_by": detected,
  "author": "independent sub-agent given only the property text and a scratch worktree",
}
json.dump(meta, open(os.path.join(d, 'meta.json'), 'w'), indent=1)
print("kept", d)
