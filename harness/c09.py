"""C09 -- server sends exactly one matching response per accepted request.

resp.<frontend>.<framing>.<scenario>: one connection of a server front-end (driven without sockets, see
harness/serverlib.py) receives 1-2 well-formed requests (FC 6 then FC 3; transaction ids, unit id, addresses,
values and the initial register contents symbolic), pipelined in one read or one per read. Asserted on the bytes
written back: exactly one frame per request, in request order, each byte-identical to the reference ADU that wraps
the reference register-file model's response PDU with the request's transaction id and unit id; nothing for a
broadcast request, for a request to an absent unit when configured to ignore it, or for a listen-only response;
nothing else is ever written. fail.<frontend>: a datastore that raises is answered with exception 04.
"""
from engine.hlib import assume, same, explain, known
from engine.obl import Obl
from spec import adu, regfile
from harness import serverlib as SL

LEVEL = "model_checking"
EXPLANATION = ("Bounded symbolic model checking of the three server front-ends' handler loops, execute() and send() paths on "
               "symbolic request contents, compared byte-for-byte with reference responses (register-file model + reference ADU).")
ASSUMPTIONS = ["front-ends are driven through fake sockets / transports and a queue-only event loop (environment); one connection, reads are whole frames",
               "requests are FC 6 and FC 3 on a 4-register table (every other request type reaches the same execute/send code; their execution is C04's subject)",
               "Twisted: an exception leaving dataReceived drops that connection (reactor contract), asyncio: no selector loop"]


def _ctx(st, single=True, units=None):
    regs = [st[2 * i] * 256 + st[2 * i + 1] for i in range(4)]
    slave = SL.small_context(hr=regs)
    return slave, regs


def make_resp(frontend, framing, scenario):
    stream = frontend in SL.STREAM

    def resp(t: bytes, u: int, b1: bytes, b2: bytes, st: bytes) -> bool:
        assume(len(t) == 4 and len(b1) == 4 and len(b2) == 4 and len(st) == 8)
        assume(0 <= u <= 255)
        if framing in ("rtu", "ascii", "binary"):
            assume(u != 0)                    # unit 0 on a serial line is broadcast territory (own scenario)
        slave, regs = _ctx(st)
        ctx = SL.server_context(slave, single=True)
        pdu1, pdu2 = bytes([6]) + b1, bytes([3]) + b2
        f1 = adu.ref_adu_clean(framing, pdu1, u, t[0:2])
        f2 = adu.ref_adu_clean(framing, pdu2, u, t[2:4])
        if scenario == "one":
            chunks, reqs = [f1], [(6, b1, t[0:2])]
        elif scenario == "two-reads":
            chunks, reqs = [f1, f2], [(6, b1, t[0:2]), (3, b2, t[2:4])]
        else:
            chunks, reqs = [f1 + f2], [(6, b1, t[0:2]), (3, b2, t[2:4])]
        r = SL.drive(frontend, framing, ctx, chunks)
        if r.escaped is not None:
            explain("exception escaped the front-end: %r", r.escaped)
            return False
        if r.twisted_dropped is not None:
            explain("front-end raised on a well-formed request: %r", r.twisted_dropped)
            return False
        # reference: the register-file model applied request by request
        table = (0, list(regs))
        expected = []
        for fc, body, tid in reqs:
            pdu, newvals = regfile.model(fc, body, table, True)
            table = (0, newvals)
            expected.append(adu.ref_adu_clean(framing, pdu, u, tid))
        if len(r.written) != len(expected):
            explain("%d frames written for %d requests", len(r.written), len(expected))
            return False
        for got, exp in zip(r.written, expected):
            if not same(got, exp, "response frame"):
                return False
        return same(list(slave.store["h"].values), table[1], "holding registers after the requests")
    return resp


def make_silent(frontend, framing, why):
    def silent(t: bytes, u: int, b1: bytes, st: bytes) -> bool:
        assume(len(t) == 2 and len(b1) == 4 and len(st) == 8)
        slave, regs = _ctx(st)
        if why == "broadcast":
            ctx = SL.server_context(None, single=False, units=[(1, slave)])
            unit, kw = 0, {"broadcast": True}
            pdu = bytes([6]) + b1
        elif why == "broadcast-fail":
            # a broadcast whose execution fails (the datastore raises): still no response
            ctx = SL.server_context(None, single=False, units=[(1, _Failing())])
            unit, kw = 0, {"broadcast": True}
            pdu = bytes([6]) + b1
        elif why == "ignore-missing":
            assume(0 <= u <= 255)
            assume(u != 1)
            if framing != "tcp":
                assume(u != 0)
            ctx = SL.server_context(None, single=False, units=[(1, slave)])
            unit, kw = u, {"ignore_missing": True}
            pdu = bytes([6]) + b1
        else:  # listen-only: Force Listen Only Mode has no response
            assume(1 <= u <= 247)
            ctx = SL.server_context(slave, single=True)
            unit, kw = u, {}
            pdu = bytes([8, 0, 4, 0, 0])
        r = SL.drive(frontend, framing, ctx, [adu.ref_adu_clean(framing, pdu, unit, t)], **kw)
        from pymodbus.device import ModbusControlBlock
        ModbusControlBlock().ListenOnly = False
        if r.escaped is not None:
            explain("exception escaped: %r", r.escaped)
            return False
        if len(r.written) != 0:
            explain("wrote %r although no response is due (%s)", r.written, why)
            return False
        if why == "broadcast":
            table = regfile.model(6, b1, (0, list(regs)), True)[1]
            return same(list(slave.store["h"].values), table, "broadcast write applied to the hosted unit")
        if why == "ignore-missing":
            return same(list(slave.store["h"].values), list(regs), "absent unit: nothing changes")
        return True
    return silent


def make_hosted_ignore(frontend, framing, mode):
    """ignore_missing_slaves only silences requests to units the server does NOT host: with the option on, a request to a
    hosted unit (any unit id in single-context mode; the registered one in multi-unit mode) still gets its one response"""
    def hosted_ignore(t: bytes, u: int, b1: bytes, st: bytes) -> bool:
        assume(len(t) == 2 and len(b1) == 4 and len(st) == 8)
        assume(1 <= u <= 247)
        slave, regs = _ctx(st)
        if mode == "single":
            ctx = SL.server_context(slave, single=True)
        else:
            ctx = SL.server_context(None, single=False, units=[(u, slave)])
        r = SL.drive(frontend, framing, ctx, [adu.ref_adu_clean(framing, bytes([6]) + b1, u, t)], ignore_missing=True)
        if r.escaped is not None:
            explain("exception escaped: %r", r.escaped)
            return False
        pdu, newvals = regfile.model(6, b1, (0, list(regs)), True)
        if len(r.written) != 1:
            explain("%d frames written for one request to a hosted unit (ignore_missing_slaves on, %s context)", len(r.written), mode)
            return False
        if not same(r.written[0], adu.ref_adu_clean(framing, pdu, u, t), "response frame"):
            return False
        return same(list(slave.store["h"].values), newvals, "holding registers after the request")
    return hosted_ignore


def make_after_broadcast(frontend, framing):
    """a broadcast write (no response) followed by an ordinary request on the same connection: the second is answered"""
    def after_broadcast(t: bytes, u: int, b1: bytes, b2: bytes, st: bytes) -> bool:
        assume(len(t) == 4 and len(b1) == 4 and len(b2) == 4 and len(st) == 8)
        assume(1 <= u <= 247)
        slave, regs = _ctx(st)
        ctx = SL.server_context(None, single=False, units=[(u, slave)])
        f1 = adu.ref_adu_clean(framing, bytes([6]) + b1, 0, t[0:2])
        f2 = adu.ref_adu_clean(framing, bytes([3]) + b2, u, t[2:4])
        chunks = [f1, f2]
        r = SL.drive(frontend, framing, ctx, chunks, broadcast=True)
        if r.escaped is not None:
            return False
        table = (0, regfile.model(6, b1, (0, list(regs)), True)[1])
        pdu2, _ = regfile.model(3, b2, table, True)
        if len(r.written) != 1:
            explain("%d frames written; the broadcast is silent and the following request must be answered once", len(r.written))
            return False
        return same(r.written[0], adu.ref_adu_clean(framing, pdu2, u, t[2:4]), "response to the request after the broadcast")
    return after_broadcast


def make_nodata(frontend, framing, fc):
    """a request that consists of the function code alone (FC 7, 11, 12, 17): exactly one response frame with the
    request's ids and function code (its content comes from device counters and is not compared)"""
    def nodata(t: bytes, u: int) -> bool:
        assume(len(t) == 2)
        assume(1 <= u <= 247)
        slave = SL.small_context()
        ctx = SL.server_context(slave, single=True)
        r = SL.drive(frontend, framing, ctx, [adu.ref_adu_clean(framing, bytes([fc]), u, t)])
        if r.escaped is not None or r.twisted_dropped is not None:
            return False
        if len(r.written) != 1:
            explain("%d frames written for one request with function code %d", len(r.written), fc)
            return False
        w = r.written[0]
        if framing == "tcp":
            n = len(w) - 6
            return w[0:2] == t and w[2] == 0 and w[3] == 0 and w[4] * 256 + w[5] == n and w[6] == u and w[7] == fc
        if framing == "rtu":
            return w[0] == u and w[1] == fc
        return True
    return nodata


def make_subfn(frontend, framing, fc, sub):
    """requests that are dispatched on a sub-function / MEI type (diagnostics fc 8, encapsulated interface fc 43): exactly
    one response, carrying the request's transaction id, unit id and function code (or that code | 0x80)"""
    def subfn(t: bytes, u: int, d: bytes) -> bool:
        assume(len(t) == 2 and len(d) == 2)
        assume(1 <= u <= 247)
        slave = SL.small_context()
        ctx = SL.server_context(slave, single=True)
        if fc == 8:
            pdu = bytes([8, sub // 256, sub % 256, d[0], d[1]])
        else:
            assume(1 <= d[0] <= 4)
            assume(d[1] <= 6)
            pdu = bytes([43, sub, d[0], d[1]])
        r = SL.drive(frontend, framing, ctx, [adu.ref_adu_clean(framing, pdu, u, t)])
        from pymodbus.device import ModbusControlBlock
        ModbusControlBlock().ListenOnly = False
        if r.escaped is not None or r.twisted_dropped is not None:
            explain("exception escaped: %r", r.escaped or r.twisted_dropped)
            return False
        if len(r.written) != 1:
            explain("%d frames written for one fc %d / sub-function %d request", len(r.written), fc, sub)
            return False
        w = r.written[0]
        if framing == "tcp":
            ok = w[0:2] == t and w[6] == u and (w[7] == fc or w[7] == fc + 0x80)
            if not ok:
                explain("response header %r for a request with fc %d, unit %r", w[0:8], fc, u)
            return ok
        return w[0] == u and (w[1] == fc or w[1] == fc + 0x80)
    return subfn


def make_nodata_second(frontend, framing, fc):
    """a request consisting of the function code alone, arriving AFTER another request on the same connection (two
    reads): two responses, in order, the second with the bare request's function code"""
    def nodata2(t: bytes, u: int, b1: bytes) -> bool:
        assume(len(t) == 4 and len(b1) == 4)
        assume(1 <= u <= 247)
        assume(b1[0] == 0 and b1[1] <= 3 and b1[2] == 0 and b1[3] == 1)
        slave = SL.small_context()
        ctx = SL.server_context(slave, single=True)
        f1 = adu.ref_adu_clean(framing, bytes([3]) + b1, u, t[0:2])
        f2 = adu.ref_adu_clean(framing, bytes([fc]), u, t[2:4])
        r = SL.drive(frontend, framing, ctx, [f1, f2])
        if r.escaped is not None or r.twisted_dropped is not None:
            return False
        if len(r.written) != 2:
            explain("%d frames written for two requests (fc 3, then the bare fc %d)", len(r.written), fc)
            return False
        w = r.written[1]
        pos = {"tcp": 7, "rtu": 1, "binary": 2}.get(framing)
        if pos is None:
            return True
        return w[pos] == fc and (r.written[0][pos] == 3)
    return nodata2


class _Failing(object):
    """a datastore whose every access raises"""
    zero_mode = True

    def validate(self, *a, **k):
        raise RuntimeError("datastore failure")
    getValues = setValues = validate


def make_fail(frontend, framing):
    def fail(t: bytes, u: int, b1: bytes) -> bool:
        assume(len(t) == 2 and len(b1) == 4)
        assume(1 <= u <= 247)
        ctx = SL.server_context(_Failing(), single=True)
        r = SL.drive(frontend, framing, ctx, [adu.ref_adu_clean(framing, bytes([3]) + b1, u, t)])
        if r.escaped is not None or r.twisted_dropped is not None:
            explain("exception escaped instead of exception response 04")
            return False
        # quantity check comes before any datastore access: only requests that reach the datastore fail with 04
        q = b1[2] * 256 + b1[3]
        code = 4 if 1 <= q <= 125 else 3
        exp = adu.ref_adu_clean(framing, bytes([0x83, code]), u, t)
        return len(r.written) == 1 and same(r.written[0], exp, "exception response")
    return fail


CONTRACTS = {"tcp": (), "rtu": ("crc",), "binary": ("crc",), "ascii": ("lrc",)}
LEMMAS = {"tcp": (), "rtu": ("K1",), "binary": ("K1",), "ascii": ("K2",)}


def plan(tier):
    p = []
    for fe in SL.FRONTENDS:
        framings = ["tcp"]
        if fe == "sync-serial":
            framings = ["rtu", "ascii"] if tier == "quick" else ["rtu", "ascii", "binary"]
        elif fe in ("sync-tcp", "twisted-tcp", "asyncio-tcp") and tier != "quick":
            framings = ["tcp", "rtu", "ascii"]
        elif fe == "twisted-tcp":
            framings = ["tcp", "rtu"]
        for fr in framings:
            scen = ["one", "two-reads"]
            if fe in SL.STREAM and fr in ("tcp", "ascii"):
                scen.append("two-one-read")
            for s in scen:
                if tier == "quick" and fr == "ascii" and s != "one":
                    continue            # two ASCII frames per obligation: thorough tier (slow hex arithmetic)
                p.append((fe, fr, s))
    return p


def obligations(tier):
    from harness import kernels
    T = 240 if tier == "quick" else 1200
    out = [kernels.K1(tier), kernels.K2(tier)]
    for fe, fr, s in plan(tier):
        out.append(Obl("resp.%s.%s.%s" % (fe, fr, s), make_resp(fe, fr, s), timeout=T, contracts=CONTRACTS[fr], lemmas=LEMMAS[fr],
                       bounds="%s front-end, %s framing, scenario %s: tids, unit id, FC6/FC3 bodies and 4 initial registers symbolic" % (fe, fr, s)))
    for fe in SL.FRONTENDS:
        fr = "rtu" if fe == "sync-serial" else "tcp"
        whys = ["listen-only", "ignore-missing"]
        if fe.startswith(("sync", "asyncio")):
            whys += ["broadcast", "broadcast-fail"]    # the Twisted front-end has no broadcast option
        for why in whys:
            out.append(Obl("silent.%s.%s.%s" % (fe, fr, why), make_silent(fe, fr, why), timeout=T, contracts=CONTRACTS[fr], lemmas=LEMMAS[fr],
                           whole_finding="KF-twisted-udp-listen-only-response" if (fe, why) == ("twisted-udp", "listen-only") else None,
                           bounds="%s front-end, %s framing: one request for which no response is due (%s); contents symbolic" % (fe, fr, why)))
        for mode in ("single", "multi"):
            out.append(Obl("hosted-ignore.%s.%s.%s" % (fe, fr, mode), make_hosted_ignore(fe, fr, mode), timeout=T, contracts=CONTRACTS[fr], lemmas=LEMMAS[fr],
                           bounds="%s front-end, %s framing, ignore_missing_slaves on, %s context hosting the addressed unit (unit id 1..247, tid, FC6 body, 4 registers symbolic): exactly one response" % (fe, fr, mode)))
        if fe in ("sync-tcp", "sync-serial", "asyncio-tcp"):
            out.append(Obl("after-broadcast.%s.%s" % (fe, fr), make_after_broadcast(fe, fr), timeout=T, contracts=CONTRACTS[fr], lemmas=LEMMAS[fr],
                           bounds="%s front-end with broadcast_enable: a unit-0 write then an FC3 request to the hosted unit on the same connection (two reads); contents symbolic" % fe))
        if fe in ("sync-tcp", "twisted-tcp", "asyncio-udp") or tier != "quick":
            subs = [(8, k) for k in ((0, 1, 10, 13, 14, 20) if tier == "quick" else tuple(range(0, 4)) + tuple(range(10, 22)))] + [(43, 14)] + ([(43, 13)] if tier != "quick" else [])
            for sfc, sub in subs:
                out.append(Obl("subfn.%s.%s.fc%d.sub%d" % (fe, fr, sfc, sub), make_subfn(fe, fr, sfc, sub), timeout=T, contracts=CONTRACTS[fr], lemmas=LEMMAS[fr],
                               bounds="%s front-end, %s framing: one request with function code %d, sub-function / MEI type %d, data symbolic: one response with the request's ids and function code" % (fe, fr, sfc, sub)))
        if fe in ("sync-serial", "sync-tcp") or tier != "quick":
            for nfc in ((7,) if tier == "quick" else (7, 11, 12, 17)):
                out.append(Obl("nodata-second.%s.%s.fc%d" % (fe, fr, nfc), make_nodata_second(fe, fr, nfc), timeout=T, contracts=CONTRACTS[fr], lemmas=LEMMAS[fr],
                               bounds="%s front-end, %s framing: an FC3 request, then (second read) a request that is the bare function code %d: two responses in order" % (fe, fr, nfc)))
        for nfc in ((7, 17) if tier == "quick" else (7, 11, 12, 17)):
            out.append(Obl("nodata.%s.%s.fc%d" % (fe, fr, nfc), make_nodata(fe, fr, nfc), timeout=T, contracts=CONTRACTS[fr], lemmas=LEMMAS[fr],
                           bounds="%s front-end, %s framing: a request that is the bare function code %d; tid and unit symbolic" % (fe, fr, nfc)))
        out.append(Obl("fail.%s.%s" % (fe, fr), make_fail(fe, fr), timeout=T, contracts=CONTRACTS[fr], lemmas=LEMMAS[fr],
                       bounds="%s front-end: FC3 request against a datastore whose every access raises -> exception 04" % fe))
    return out
