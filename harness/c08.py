"""C08 -- synchronous client returns only the reply to its own request.

own.<framing>.<request>.len<L>: a scripted-transport client (real BaseModbusClient.execute, transaction manager,
framer, ClientDecoder) with a SYMBOLIC transaction-id counter issues one request (symbolic unit id and fields); the
transport then delivers ANY L bytes (all symbolic except the function-code position, enumerated). Asserted: the
call returns an error object, or a response that (a) was decoded from a frame with a valid integrity check inside
the received bytes (C07's recogniser), (b) carries the request's transaction id on TCP / the request's unit id on
serial framings, and (c) has the request's function code or that code | 0x80.
stale.<framing>: a stale valid frame (other transaction id / unit) followed by the right reply.
(The companion clause -- a well-formed reply of a conformant server is returned decoded -- is decided by
C14's exact.* obligations for every request type and framing.)
"""
from engine.hlib import assume, same, explain, known
from engine.obl import Obl
from spec import adu
from harness.clientlib import make_client
from harness.c07 import SpyDecoder, JUST, FCPOS, pdu_of

LEVEL = "model_checking"
EXPLANATION = ("Bounded symbolic model checking of ModbusTransactionManager.execute/_transact/_recv, the framers' receive path and the "
               "ClientDecoder against arbitrary reply bytes, from an arbitrary transaction-id counter.")
ASSUMPTIONS = ["one transaction per obligation from a symbolic transaction-id counter (covers wrap at 65535); retries 0; reply bytes of the stated total length delivered as the client asks for them",
               "the scripted transport is the environment (it hands out the bytes exactly as requested)",
               "RTU/binary CRC as uninterpreted contract (K1), ASCII LRC closed form (K2)"]


def _request(kind, a, u):
    import pymodbus.factory as F
    if kind == "ReadHoldingRegisters":
        r = F.ReadHoldingRegistersRequest(a[0] * 256 + a[1], 1)
    elif kind == "WriteSingleRegister":
        r = F.WriteSingleRegisterRequest(a[0] * 256 + a[1], a[2] * 256 + a[3])
    else:
        r = F.ReadCoilsRequest(a[0] * 256 + a[1], 8)
    r.unit_id = u
    return r


def is_error_object(x):
    from pymodbus.exceptions import ModbusException
    return isinstance(x, (ModbusException, Exception)) or isinstance(x, (bytes, str))


def make_own(framing, kind, fcbyte, L):
    def own(t0: bytes, u: int, a: bytes, rx: bytes) -> bool:
        from pymodbus.factory import ClientDecoder
        assume(len(t0) == 2 and len(a) == 4 and len(rx) == L)
        assume(1 <= u <= 247)
        if framing == "ascii":
            hx = b"%02X" % fcbyte
            assume(rx[0] == 0x3A)
            assume(rx[3] == hx[0])
            assume(rx[4] == hx[1])
        elif framing == "binary":
            assume(rx[0] == 0x7B)
            assume(rx[2] == fcbyte)
        else:
            assume(rx[FCPOS[framing]] == fcbyte)
        cl = make_client(framing, rx=rx)
        spy = SpyDecoder(ClientDecoder())
        cl.framer.decoder = spy
        cl.transaction.tid = t0[0] * 256 + t0[1]
        req = _request(kind, a, u)
        try:
            got = cl.execute(req)
        except Exception:
            return True          # nothing is returned at all; whether a call may raise is C13's subject
        if is_error_object(got):
            return True
        sent_tid = req.transaction_id
        if not hasattr(got, "function_code"):
            explain("client returned %r", got)
            return False
        pdu = pdu_of(spy, got)
        if pdu is None:
            explain("returned object was not decoded during this call")
            return False
        # known finding: the reply slot is keyed by the REQUEST's id, so a reply with a foreign transaction id (TCP)
        # or a foreign function code is handed back as the answer
        foreign_tid = (framing == "tcp") and (got.transaction_id != sent_tid)
        foreign_fc = not ((got.function_code == req.function_code) or (got.function_code == req.function_code + 0x80))
        known("KF-client-foreign-reply-accepted", foreign_tid or foreign_fc)
        if foreign_tid:
            explain("reply with transaction id %r returned for request %r", got.transaction_id, sent_tid)
            return False
        if foreign_fc:
            explain("reply with function code %r returned for request fc %r", got.function_code, req.function_code)
            return False
        if framing != "tcp" and got.unit_id != u:
            explain("reply from unit %r returned for a request to unit %r", got.unit_id, u)
            return False
        if not JUST[framing](rx, pdu, got):
            explain("returned reply is not carried by any frame with a valid integrity check in the received bytes")
            return False
        return True
    return own


def make_leftover(framing, K, L):
    """pre-state: K arbitrary bytes left in the framer's buffer by an earlier (timed-out) transaction; then a transaction
    whose transport delivers ANY L bytes: what is returned must be justified by the bytes received during THIS call"""
    def leftover(pre: bytes, u: int, rx: bytes) -> bool:
        from pymodbus.factory import ClientDecoder
        import pymodbus.factory as F
        assume(len(pre) == K and len(rx) == L)
        assume(1 <= u <= 247)
        if framing == "rtu":
            assume(rx[1] == 3)
            assume(pre[1] == 3)
        elif framing == "tcp":
            assume(rx[7] == 3)
        cl = make_client(framing, rx=rx)
        spy = SpyDecoder(ClientDecoder())
        cl.framer.decoder = spy
        cl.framer._buffer = pre
        req = F.ReadHoldingRegistersRequest(0, 1)
        req.unit_id = u
        try:
            got = cl.execute(req)
        except Exception:
            return True
        if is_error_object(got):
            return True
        pdu = pdu_of(spy, got)
        if pdu is None:
            return False
        foreign_tid = (framing == "tcp") and (got.transaction_id != req.transaction_id)
        foreign_fc = not ((got.function_code == 3) or (got.function_code == 0x83))
        known("KF-client-foreign-reply-accepted", foreign_tid or foreign_fc)
        if not JUST[framing](rx, pdu, got):
            explain("the returned reply %r is not carried by a valid frame in the %d bytes received during this call (stale buffer %r)", bytes(pdu), L, bytes(pre))
            return False
        return True
    return leftover


def make_history(framing, kind):
    """two healthy transactions of the same kind on one client (and, for fc23, a third on a SECOND client in the same
    process): each call returns exactly the values of the reply received during that call -- nothing decoded in an
    earlier transaction shows up (decoder objects, default arguments and class attributes are process-wide state)"""
    def history(u: int, v: bytes) -> bool:
        import pymodbus.factory as F
        assume(len(v) == 8)
        assume(1 <= u <= 247)

        def request(i):
            if kind == "fc23":
                return F.ReadWriteMultipleRegistersRequest(read_address=i, read_count=1, write_address=9, write_registers=[1])
            if kind == "fc3":
                return F.ReadHoldingRegistersRequest(i, 1)
            return F.ReadCoilsRequest(i, 8)

        def reply_pdu(i):
            if kind == "fc23":
                return bytes([23, 2, v[2 * i], v[2 * i + 1]])
            if kind == "fc3":
                return bytes([3, 2, v[2 * i], v[2 * i + 1]])
            return bytes([1, 1, v[2 * i]])

        def expect(i):
            if kind == "fc1":
                return [((v[2 * i] >> k) & 1) == 1 for k in range(8)]
            return [v[2 * i] * 256 + v[2 * i + 1]]
        clients = [make_client(framing, rx=b""), make_client(framing, rx=b"")]
        for i, cl in ((0, clients[0]), (1, clients[0]), (2, clients[1])):
            req = request(i)
            req.unit_id = u
            tid = (cl.transaction.tid + 1) % 65536
            cl.rx = adu.ref_adu_clean(framing, reply_pdu(i), u, bytes([tid // 256, tid % 256]))     # (binary: no delimiter bytes, C03's finding)
            try:
                got = cl.execute(req)
            except Exception as e:
                explain("transaction %d raised %s", i, type(e).__name__)
                return False
            if is_error_object(got):
                explain("transaction %d returned %r", i, got)
                return False
            vals = list(got.registers) if kind != "fc1" else list(got.bits)[:8]
            if not same(vals, expect(i), "values returned by transaction %d" % i):
                return False
        # then a request nobody answers: an error object -- not an earlier reply, not None
        req = request(3)
        req.unit_id = u
        clients[0].rx = b""
        try:
            got = clients[0].execute(req)
        except Exception as e:
            explain("unanswered transaction raised %s", type(e).__name__)
            return False
        if not is_error_object(got):
            explain("a request that got no reply returned %r", got)
            return False
        return True
    return history


def make_late(framing):
    """transaction 1 receives nothing (time-out); its reply arrives late -- which can only reach the client if it kept
    the connection open; transaction 2 (same unit, same function code) must return ITS reply or an error object"""
    def late(u: int, v: bytes) -> bool:
        import pymodbus.factory as F
        assume(len(v) == 4)
        assume(1 <= u <= 247)
        assume(v[0] * 256 + v[1] != v[2] * 256 + v[3])
        cl = make_client(framing, rx=b"")
        r1 = F.ReadHoldingRegistersRequest(0, 1)
        r1.unit_id = u
        try:
            first = cl.execute(r1)
        except Exception:
            return True
        if not is_error_object(first):
            return False
        t1, t2 = r1.transaction_id, (r1.transaction_id + 1) % 65536
        late_reply = adu.ref_adu(framing, bytes([3, 2, v[0], v[1]]), u, bytes([t1 // 256, t1 % 256]))
        own_reply = adu.ref_adu(framing, bytes([3, 2, v[2], v[3]]), u, bytes([t2 // 256, t2 % 256]))
        # the late reply only exists for a client that did not close the connection after the time-out
        cl.rx = (late_reply if cl.closed == 0 else b"") + own_reply
        r2 = F.ReadHoldingRegistersRequest(1, 1)
        r2.unit_id = u
        try:
            got = cl.execute(r2)
        except Exception:
            return True
        if is_error_object(got):
            return True
        if framing == "tcp":
            known("KF-client-foreign-reply-accepted", got.transaction_id != r2.transaction_id)
        if list(got.registers) != [v[2] * 256 + v[3]]:
            explain("the late reply to the timed-out request (value %r) was returned as the answer to the next request", list(got.registers))
            return False
        return True
    return late


def make_stale(framing):
    def stale(t0: bytes, u: bytes, v: bytes) -> bool:
        assume(len(t0) == 2 and len(u) == 2 and len(v) == 4)
        unit, other = u[0], u[1]
        assume(1 <= unit <= 247)
        assume(1 <= other <= 247)
        tid0 = t0[0] * 256 + t0[1]
        sent = (tid0 + 1) % 65536
        st = (tid0 + 65536 - 3) % 65536          # a transaction id from three transactions ago
        if framing == "tcp":
            stale_frame = adu.ref_adu("tcp", bytes([3, 2, v[0], v[1]]), unit, bytes([st // 256, st % 256]))
        else:
            assume(other != unit)
            stale_frame = adu.ref_adu(framing, bytes([3, 2, v[0], v[1]]), other)
        good = adu.ref_adu(framing, bytes([3, 2, v[2], v[3]]), unit, bytes([sent // 256, sent % 256]))
        cl = make_client(framing, rx=stale_frame + good)
        cl.transaction.tid = tid0
        import pymodbus.factory as F
        req = F.ReadHoldingRegistersRequest(0, 1)
        req.unit_id = unit
        if framing == "binary":
            from engine.hlib import crc16, lohi
            hit = False
            for fr in (stale_frame, good):
                for i in range(1, len(fr) - 1):
                    hit = hit | (fr[i] == 0x7B) | (fr[i] == 0x7D)
            assume(not hit)       # C03's known finding: delimiter bytes inside a binary frame
        try:
            got = cl.execute(req)
        except Exception:
            return True
        if is_error_object(got):
            return True
        foreign = framing == "tcp" and got.transaction_id != req.transaction_id
        # (on TCP this whole obligation lies in the listed finding: the stale frame is always returned)
        if foreign:
            explain("stale reply (tid %r) returned for request %r", got.transaction_id, req.transaction_id)
            return False
        if framing != "tcp" and got.unit_id != unit:
            return False
        # whichever frame it is, the value must be that frame's
        exp = v[2] * 256 + v[3]
        return same(list(got.registers), [exp], "registers of the returned reply")
    return stale


def obligations(tier):
    from harness import kernels
    T = 300 if tier == "quick" else 1500
    out = [kernels.K1(tier), kernels.K2(tier)]
    contracts = {"tcp": (), "rtu": ("crc",), "binary": ("crc",), "ascii": ("lrc",)}
    lem = {"tcp": (), "rtu": ("K1",), "binary": ("K1",), "ascii": ("K2",)}
    lens = {"tcp": 11, "rtu": 7, "binary": 9, "ascii": 15}      # a one-register read reply
    kinds = [("ReadHoldingRegisters", [3, 0x83, 4])]
    if tier != "quick":
        kinds = [("ReadHoldingRegisters", [3, 0x83, 4, 6, 0x84]), ("WriteSingleRegister", [6, 0x86, 3]), ("ReadCoils", [1, 0x81, 2])]
    for framing in ("tcp", "rtu", "ascii", "binary"):
        for kind, fcs in kinds:
            for fcb in fcs:
                Ls = [lens[framing]] if tier == "quick" else [lens[framing], lens[framing] + 1]
                if kind == "WriteSingleRegister":
                    Ls = [{"tcp": 12, "rtu": 8, "binary": 10, "ascii": 17}[framing]]
                for L in Ls:
                    fnd = ("KF-client-foreign-reply-accepted",) if (framing in ("tcp", "rtu") and fcb in (3, 4)) else ()
                    out.append(Obl("own.%s.%s.fc%d.len%d" % (framing, kind, fcb, L), make_own(framing, kind, fcb, L), timeout=T,
                                   contracts=contracts[framing], lemmas=lem[framing], findings=fnd,
                                   bounds="%s client, %s request (symbolic fields, unit 1..247, tid counter 0..65535), any %d reply bytes with function-code byte 0x%02X" % (framing, kind, L, fcb)))
        if framing in ("tcp", "rtu"):
            K, L = (5, 11) if framing == "tcp" else (4, 7)
            out.append(Obl("leftover.%s.k%d" % (framing, K), make_leftover(framing, K, L), timeout=T,
                           contracts=("crc-exact",) if framing == "rtu" else contracts[framing], lemmas=lem[framing],
                           bounds="%s client whose framer still holds %d arbitrary bytes from an earlier transaction; then any %d reply bytes (function-code byte 3)" % (framing, K, L)))
        for kind in (("fc23",) if tier == "quick" and framing != "tcp" else ("fc23", "fc3", "fc1")):
            out.append(Obl("history.%s.%s" % (framing, kind), make_history(framing, kind), timeout=T,
                           contracts=contracts[framing] + (("bits",) if kind == "fc1" else ()), lemmas=lem[framing],
                           bounds="%s client: three healthy %s transactions in one process (two on one client, one on a second client), unit and reply values symbolic: each returns exactly its own reply's values" % (framing, kind)))
        out.append(Obl("late.%s" % framing, make_late(framing), timeout=T, contracts=contracts[framing], lemmas=lem[framing],
                       bounds="%s client: a request that times out, its reply arriving late (only if the connection was kept open), then a second request of the same kind; unit and values symbolic" % framing))
        out.append(Obl("stale.%s" % framing, make_stale(framing), timeout=T, contracts=contracts[framing], lemmas=lem[framing],
                       whole_finding="KF-client-foreign-reply-accepted" if framing == "tcp" else None,
                       bounds="%s client: a stale valid frame (older transaction id / other unit) followed by the right reply; ids, units and values symbolic" % framing))
    return out
